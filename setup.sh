#!/bin/bash
# Builds the verification harness offline from files on disk only.
set -e
cd "$(dirname "$0")/harness"
export CARGO_NET_OFFLINE=true
cargo build --release --offline
echo "setup ok"
