#!/bin/bash
# Builds the verification harness offline from files on disk only.
set -e
HERE="$(cd "$(dirname "$0")" && pwd)"
export CARGO_NET_OFFLINE=true
cd "$HERE/harness"
cargo build --release --offline
# the unmodified totalmapper binary (guard off) for the end-to-end part of C16
cargo build --release --offline --manifest-path /repo/Cargo.toml --target-dir "$HERE/target-repo" || true
echo "setup ok"
