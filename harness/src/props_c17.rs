// C17: exclude patterns reach the service's command line unchanged.
// Oracle: an independent decoder of systemd's documented rules for unit files and ExecStart=
// lines (line splitting and continuation, section/key lookup, word splitting, quote removal,
// C unescaping, the unquoted ";" separator, % specifiers, $ variable expansion).

use crate::engine::*;
use crate::evidence::*;
use crate::findings::Findings;
use crate::tape::Src;
use serde_json::{json, Value};

const INSTANCE_UNESCAPED: &str = "dev/input/event7";

fn is_ws(b: u8) -> bool {
  b == b' ' || b == b'\t' || b == b'\n' || b == b'\r'
}

// ---- unit file: lines, continuation, sections -------------------------------------------------

pub fn find_exec_start(unit: &str) -> Result<Vec<u8>, String> {
  let bytes = unit.as_bytes();
  // split into lines at \n and \r (systemd's read_line accepts both)
  let mut lines: Vec<Vec<u8>> = Vec::new();
  let mut cur: Vec<u8> = Vec::new();
  for &b in bytes {
    if b == b'\n' || b == b'\r' {
      lines.push(std::mem::take(&mut cur));
    } else if b == 0 {
      return Err("NUL byte in unit file".to_string());
    } else {
      cur.push(b);
    }
  }
  if !cur.is_empty() {
    lines.push(cur);
  }
  let mut section = String::new();
  let mut found: Vec<Vec<u8>> = Vec::new();
  let mut continuation: Option<Vec<u8>> = None;
  for raw in lines {
    let mut l: Vec<u8> = raw;
    if let Some(mut c) = continuation.take() {
      // a comment line is ignored even in the middle of a continued line (systemd.syntax(7))
      let start = l.iter().position(|b| !is_ws(*b)).unwrap_or(l.len());
      if start < l.len() && (l[start] == b'#' || l[start] == b';') {
        continuation = Some(c);
        continue;
      }
      // continuation: previous line (without its backslash) + space + this line
      c.push(b' ');
      // leading whitespace of a continuation line is kept by systemd, it collapses when words are split
      c.extend_from_slice(&l);
      l = c;
    } else {
      // skip leading whitespace; comments
      let start = l.iter().position(|b| !is_ws(*b)).unwrap_or(l.len());
      l = l[start..].to_vec();
      if l.is_empty() || l[0] == b'#' || l[0] == b';' {
        continue;
      }
    }
    // trailing backslash = continuation (an even number of backslashes is not)
    let mut n_bs = 0;
    while n_bs < l.len() && l[l.len() - 1 - n_bs] == b'\\' {
      n_bs += 1;
    }
    if n_bs % 2 == 1 {
      l.pop();
      continuation = Some(l);
      continue;
    }
    if l[0] == b'[' {
      let t: Vec<u8> = l.iter().rev().skip_while(|b| is_ws(**b)).cloned().collect::<Vec<u8>>().into_iter().rev().collect();
      if t.last() == Some(&b']') {
        section = String::from_utf8_lossy(&t[1..t.len() - 1]).to_string();
        continue;
      }
      return Err(format!("bad section header {:?}", String::from_utf8_lossy(&l)));
    }
    let eq = match l.iter().position(|b| *b == b'=') {
      Some(p) => p,
      None => return Err(format!("line without '=': {:?}", String::from_utf8_lossy(&l))),
    };
    let key: Vec<u8> = l[..eq].iter().cloned().collect();
    let key = String::from_utf8_lossy(&key).trim_matches(|c| c == ' ' || c == '\t' || c == '\n' || c == '\r').to_string();
    let mut val: &[u8] = &l[eq + 1..];
    while !val.is_empty() && is_ws(val[0]) {
      val = &val[1..];
    }
    while !val.is_empty() && is_ws(val[val.len() - 1]) {
      val = &val[..val.len() - 1];
    }
    if section == "Service" && key == "ExecStart" {
      found.push(val.to_vec());
    }
  }
  if let Some(c) = continuation {
    // a dangling continuation at end of file still ends the line
    let _ = c;
  }
  match found.len() {
    1 => Ok(found.remove(0)),
    0 => Err("no ExecStart= in [Service]".to_string()),
    n => Err(format!("{} ExecStart= lines in [Service]", n)),
  }
}

// ---- extract_first_word(EXTRACT_UNQUOTE | EXTRACT_CUNESCAPE) ----------------------------------

fn hexval(b: u8) -> Option<u32> {
  (b as char).to_digit(16)
}

// C unescaping of one sequence after the backslash; returns (bytes to append, consumed)
fn cunescape_one(p: &[u8]) -> Result<(Vec<u8>, usize), String> {
  if p.is_empty() {
    return Err("backslash at end of line".to_string());
  }
  let simple = |b: u8| Ok((vec![b], 1usize));
  match p[0] {
    b'a' => simple(0x07),
    b'b' => simple(0x08),
    b'f' => simple(0x0c),
    b'n' => simple(b'\n'),
    b'r' => simple(b'\r'),
    b't' => simple(b'\t'),
    b'v' => simple(0x0b),
    b'\\' => simple(b'\\'),
    b'"' => simple(b'"'),
    b'\'' => simple(b'\''),
    b's' => simple(b' '),
    b'x' => {
      if p.len() < 3 {
        return Err("truncated \\x escape".to_string());
      }
      let a = hexval(p[1]).ok_or("bad hex digit in \\x escape")?;
      let b = hexval(p[2]).ok_or("bad hex digit in \\x escape")?;
      let v = (a << 4) | b;
      if v == 0 {
        return Err("\\x00 is not allowed".to_string());
      }
      Ok((vec![v as u8], 3))
    }
    b'u' | b'U' => {
      let n = if p[0] == b'u' { 4 } else { 8 };
      if p.len() < 1 + n {
        return Err("truncated \\u escape".to_string());
      }
      let mut v: u32 = 0;
      for i in 0..n {
        v = (v << 4) | hexval(p[1 + i]).ok_or("bad hex digit in \\u escape")?;
      }
      if v == 0 {
        return Err("\\u0000 is not allowed".to_string());
      }
      let ch = char::from_u32(v).ok_or("\\u escape is not a valid character")?;
      let mut buf = [0u8; 4];
      Ok((ch.encode_utf8(&mut buf).as_bytes().to_vec(), 1 + n))
    }
    b'0'..=b'7' => {
      if p.len() < 3 {
        return Err("truncated octal escape".to_string());
      }
      let d = |b: u8| if (b'0'..=b'7').contains(&b) { Ok((b - b'0') as u32) } else { Err("bad octal digit".to_string()) };
      let v = (d(p[0])? << 6) | (d(p[1])? << 3) | d(p[2])?;
      if v == 0 || v > 255 {
        return Err("octal escape out of range".to_string());
      }
      Ok((vec![v as u8], 3))
    }
    other => Err(format!("unknown escape \\{}", other as char)),
  }
}

// Returns (word, rest) or None at end of input; rest starts at the next non-separator byte.
fn extract_first_word(p: &[u8]) -> Result<Option<(Vec<u8>, &[u8])>, String> {
  let mut i = 0;
  while i < p.len() && is_ws(p[i]) {
    i += 1;
  }
  if i >= p.len() {
    return Ok(None);
  }
  let mut word: Vec<u8> = Vec::new();
  let mut quote: Option<u8> = None;
  loop {
    if i >= p.len() {
      if quote.is_some() {
        return Err("unbalanced quote".to_string());
      }
      return Ok(Some((word, &p[i..])));
    }
    let c = p[i];
    match quote {
      Some(q) => {
        if c == q {
          quote = None;
          i += 1;
        } else if c == b'\\' {
          let (bytes, used) = cunescape_one(&p[i + 1..])?;
          word.extend(bytes);
          i += 1 + used;
        } else {
          word.push(c);
          i += 1;
        }
      }
      None => {
        if c == b'\'' || c == b'"' {
          quote = Some(c);
          i += 1;
        } else if c == b'\\' {
          let (bytes, used) = cunescape_one(&p[i + 1..])?;
          word.extend(bytes);
          i += 1 + used;
        } else if is_ws(c) {
          while i < p.len() && is_ws(p[i]) {
            i += 1;
          }
          return Ok(Some((word, &p[i..])));
        } else {
          word.push(c);
          i += 1;
        }
      }
    }
  }
}

// ---- % specifiers ----------------------------------------------------------------------------

const KNOWN_SPECIFIERS: &[u8] = b"aAbBCdDEfgGhHiIjJlLmMnNopPqsStTuUvVwWyY";

fn specifier_value(c: u8) -> Vec<u8> {
  match c {
    b'I' => INSTANCE_UNESCAPED.as_bytes().to_vec(),
    b'i' => b"dev-input-event7".to_vec(),
    other => format!("<specifier-{}>", other as char).into_bytes(),
  }
}

fn specifier_printf(w: &[u8]) -> Vec<u8> {
  let mut out = Vec::new();
  let mut i = 0;
  while i < w.len() {
    if w[i] == b'%' {
      if i + 1 >= w.len() {
        out.push(b'%');
        i += 1;
      } else if w[i + 1] == b'%' {
        out.push(b'%');
        i += 2;
      } else if KNOWN_SPECIFIERS.contains(&w[i + 1]) {
        out.extend(specifier_value(w[i + 1]));
        i += 2;
      } else {
        out.push(b'%');
        out.push(w[i + 1]);
        i += 2;
      }
    } else {
      out.push(w[i]);
      i += 1;
    }
  }
  out
}

// ---- $ variables (exec time) -------------------------------------------------------------------

// Model environment: what a system service typically gets; any other variable is unset.
fn env_get(name: &[u8]) -> Option<&'static str> {
  match name {
    b"PATH" => Some("/usr/local/sbin:/usr/local/bin:/usr/sbin:/usr/bin"),
    b"LANG" => Some("C.UTF-8"),
    b"USER" | b"LOGNAME" => Some("totalmapper"),
    b"HOME" => Some("/nonexistent"),
    b"SHELL" => Some("/usr/sbin/nologin"),
    b"INVOCATION_ID" => Some("0123456789abcdef0123456789abcdef"),
    _ => None,
  }
}

// None = the word vanishes (an unset variable as a word of its own)
fn replace_env_word(w: &[u8]) -> Vec<Vec<u8>> {
  if w.len() >= 1 && w[0] == b'$' && !(w.len() >= 2 && (w[1] == b'{' || w[1] == b'$')) {
    // $FOO as a word of its own: replaced by the split-up variable
    return match env_get(&w[1..]) {
      Some(v) => v.split_whitespace().map(|s| s.as_bytes().to_vec()).collect(),
      None => vec![],
    };
  }
  let mut out = Vec::new();
  let mut i = 0;
  while i < w.len() {
    if w[i] == b'$' && i + 1 < w.len() {
      if w[i + 1] == b'$' {
        out.push(b'$');
        i += 2;
        continue;
      }
      if w[i + 1] == b'{' {
        if let Some(close) = w[i + 2..].iter().position(|b| *b == b'}') {
          let name = &w[i + 2..i + 2 + close];
          if let Some(v) = env_get(name) {
            out.extend_from_slice(v.as_bytes());
          }
          i += 2 + close + 1;
          continue;
        }
        // unterminated: literal
      }
    }
    out.push(w[i]);
    i += 1;
  }
  vec![out]
}

// ---- ExecStart= -------------------------------------------------------------------------------

pub fn decode_exec_start(rvalue: &[u8]) -> Result<Vec<Vec<Vec<u8>>>, String> {
  let mut commands: Vec<Vec<Vec<u8>>> = Vec::new();
  let mut p: &[u8] = rvalue;
  loop {
    let (first, rest) = match extract_first_word(p)? {
      None => break,
      Some(x) => x,
    };
    p = rest;
    // prefix characters of the executable
    let mut path: &[u8] = &first;
    while !path.is_empty() && (path[0] == b'-' || path[0] == b'@' || path[0] == b':' || path[0] == b'+' || path[0] == b'!') {
      path = &path[1..];
    }
    if path.is_empty() {
      return Err("empty executable path".to_string());
    }
    let mut argv: Vec<Vec<u8>> = vec![specifier_printf(path)];
    let mut semicolon = false;
    loop {
      if !p.is_empty() && p[0] == b';' && (p.len() == 1 || is_ws(p[1])) {
        p = &p[1..];
        semicolon = true;
        break;
      }
      if p.len() >= 2 && p[0] == b'\\' && p[1] == b';' && (p.len() == 2 || is_ws(p[2])) {
        p = &p[2..];
        while !p.is_empty() && is_ws(p[0]) {
          p = &p[1..];
        }
        argv.push(b";".to_vec());
        continue;
      }
      match extract_first_word(p)? {
        None => {
          p = &p[p.len()..];
          break;
        }
        Some((w, rest)) => {
          p = rest;
          argv.push(specifier_printf(&w));
        }
      }
    }
    // exec time: environment variable substitution over the arguments
    let mut final_argv: Vec<Vec<u8>> = vec![argv[0].clone()];
    for w in &argv[1..] {
      final_argv.extend(replace_env_word(w));
    }
    commands.push(final_argv);
    if !semicolon {
      break;
    }
  }
  Ok(commands)
}

pub fn expected_argv(patterns: &[&str]) -> Vec<Vec<u8>> {
  let mut v: Vec<Vec<u8>> = ["/usr/bin/totalmapper", "remap", "--verbose", "--layout-file", "/etc/totalmapper.json", "--only-if-keyboard"].iter().map(|s| s.as_bytes().to_vec()).collect();
  for p in patterns {
    v.push(b"--exclude".to_vec());
    v.push(p.as_bytes().to_vec());
  }
  v.push(b"--dev-file".to_vec());
  v.push(format!("/{}", INSTANCE_UNESCAPED).into_bytes());
  v
}

fn show(argv: &[Vec<u8>]) -> String {
  argv.iter().map(|w| format!("{:?}", String::from_utf8_lossy(w))).collect::<Vec<_>>().join(" ")
}

pub fn check_patterns(patterns: &[&str]) -> Result<(), Violation> {
  let unit = crate::udev_utils::verif_build_service_text(patterns);
  let line = find_exec_start(&unit).map_err(|e| Violation::new("unit-file-broken", format!("patterns {:?}: the unit file does not yield one ExecStart= line: {} | unit text: {:?}", patterns, e, unit)))?;
  let cmds = decode_exec_start(&line).map_err(|e| Violation::new("exec-start-invalid", format!("patterns {:?}: systemd would reject the line ({}): {:?}", patterns, e, String::from_utf8_lossy(&line))))?;
  let expect = expected_argv(patterns);
  if cmds.len() != 1 {
    return Err(Violation::new("command-split", format!("patterns {:?}: the line {:?} is read as {} commands: {}", patterns, String::from_utf8_lossy(&line), cmds.len(), cmds.iter().map(|c| show(c)).collect::<Vec<_>>().join(" ; "))));
  }
  if cmds[0] != expect {
    return Err(Violation::new("pattern-changed", format!("patterns {:?}: the line {:?} is read by systemd as [{}], expected [{}]", patterns, String::from_utf8_lossy(&line), show(&cmds[0]), show(&expect))));
  }
  Ok(())
}

const SYNTAX: &[char] = &['\'', '"', '\\', ' ', '\t', '\n', '\r', '%', '$', '{', '}', ';', '*', '?', '#', '=', '-', '@', ':', '+', '!', 'a', 'I', 'H', '7', 'x', 'u', 's', '\u{1}', '\u{1b}', '\u{7f}', '\u{85}', '\u{a0}', '\u{2028}', '\u{1F600}', '[', ']', '~', '&', '|', '<', '>', '(', ')', '`'];

// Tokens harvested from the string literals of the code that writes the unit file (the
// fuzzer's dictionary): whatever that code treats specially - placeholders, option names,
// paths - is likely to be spelled in its own source.
pub fn source_dictionary() -> &'static Vec<String> {
  static D: std::sync::OnceLock<Vec<String>> = std::sync::OnceLock::new();
  D.get_or_init(|| {
    let path = format!("{}/src/udev_utils.rs", env!("TM_REPO_DIR"));
    let text = std::fs::read_to_string(path).unwrap_or_default();
    let mut out: Vec<String> = Vec::new();
    let mut in_str = false;
    let mut cur = String::new();
    let mut prev = '\0';
    let mut push = |tok: &str, out: &mut Vec<String>| {
      let t = tok.trim_matches(|c: char| c == ',' || c == '.' || c == ':' || c == '(' || c == ')');
      let n = t.chars().count();
      if n >= 2 && n <= 24 && !t.contains('\0') && !out.iter().any(|x| x == t) && out.len() < 400 {
        out.push(t.to_string());
      }
    };
    for c in text.chars() {
      if in_str {
        if c == '"' && prev != '\\' {
          in_str = false;
          for w in cur.split(|ch: char| ch.is_whitespace() || ch == '=' || ch == '\\' || ch == '{' || ch == '}') {
            push(w, &mut out);
            // pieces between punctuation as well: "/%I" gives "%I", "--dev-file" stays
            for piece in w.split(|ch: char| ch == '/' || ch == ',') {
              push(piece, &mut out);
            }
          }
          cur.clear();
        } else {
          cur.push(c);
        }
      } else if c == '"' {
        in_str = true;
      }
      prev = c;
    }
    out
  })
}

fn gen_pattern(src: &mut Src) -> String {
  let n = src.range(1, 40);
  let mut s = String::new();
  let dict = source_dictionary();
  for _ in 0..n {
    if !dict.is_empty() && src.chance(6) {
      s.push_str(&dict[src.below(dict.len())]);
      continue;
    }
    let c = match src.weighted(&[55, 25, 10, 10]) {
      0 => SYNTAX[src.below(SYNTAX.len())],
      1 => (b'a' + src.below(26) as u8) as char,
      2 => char::from_u32(1 + src.below(0x9f) as u32).unwrap_or('a'),
      _ => {
        let v = 1 + src.below(0x10FFFF);
        char::from_u32(v as u32).unwrap_or('\u{fffd}')
      }
    };
    s.push(c);
  }
  // realistic shapes now and then
  if src.chance(10) {
    s = src.pick(&["*Mouse*", "AT Translated Set 2 keyboard", "it's", "100% keyboard", "$HOME", "${X}", "$$", "a;b", ";", "; rm", "%I", "Logitech USB Receiver", "\"quoted\"", "C:\\path", "$", "%", "'"]).to_string();
  }
  s
}

pub fn check(cfg: &RunCfg, findings: &Findings) -> Report {
  let mut rep = Report::new(
    "C17",
    "exploration",
    "input = list of exclude patterns: every single Unicode scalar value except NUL (exhaustive), every pair (thorough: every triple) over the syntax-relevant characters, random strings of 1-40 characters weighted to that alphabet, lists of 0-4 patterns; oracle = independent decoder of systemd's ExecStart= rules; non-trivial = the pattern contains a character the escaper must treat specially (anything but ASCII letters, digits and -_.,:/); distinct = the pattern list itself",
  );
  let quick = cfg.tier == Tier::Quick;
  let needs_care = |s: &str| s.chars().any(|c| !(c.is_ascii_alphanumeric() || "-_.,:/".contains(c)));
  // regressions
  let reg = format!("{}/regressions/C17/patterns.json", crate::findings::verif_dir());
  if std::env::var("VERIF_NO_REGRESSIONS").is_err() {
    if let Ok(text) = std::fs::read_to_string(&reg) {
      if let Ok(v) = serde_json::from_str::<Value>(&text) {
        for lst in v.as_array().cloned().unwrap_or_default() {
          let pats: Vec<String> = lst.as_array().map(|a| a.iter().filter_map(|x| x.as_str().map(|s| s.to_string())).collect()).unwrap_or_default();
          let refs: Vec<&str> = pats.iter().map(|s| s.as_str()).collect();
          rep.stats.evaluations += 1;
          rep.stats.count("regression-replays", 1);
          if let Err(v) = run_guarded(|| check_patterns(&refs)) {
            if findings.is_known("C17", &v).is_none() {
              let path = write_replay("C17", &v, &json!({"patterns": pats}));
              rep.violations.push((v, path));
              return rep;
            }
          }
        }
      }
    }
  }
  // exhaustive: every single scalar value except NUL
  let chunks = 64usize;
  let results: Vec<(u64, u64, Vec<(char, Violation)>)> = par_map(cfg.threads, chunks, |ci| {
    let lo = 1u32 + (ci as u32) * (0x110000 / chunks as u32 + 1);
    let hi = (lo + 0x110000 / chunks as u32 + 1).min(0x110000);
    let mut n = 0u64;
    let mut nt = 0u64;
    let mut bad = Vec::new();
    for v in lo..hi {
      if let Some(c) = char::from_u32(v) {
        let s = c.to_string();
        n += 1;
        if !(c.is_ascii_alphanumeric() || "-_.,:/".contains(c)) {
          nt += 1;
        }
        if let Err(e) = run_guarded(|| check_patterns(&[&s])) {
          if bad.len() < 400 {
            bad.push((c, e));
          }
        }
      }
    }
    (n, nt, bad)
  });
  let mut bad_all: Vec<(char, Violation)> = Vec::new();
  let mut single_nt = 0u64;
  for (n, nt, bad) in results {
    rep.stats.evaluations += n;
    single_nt += nt;
    bad_all.extend(bad);
  }
  rep.stats.count("single-characters-enumerated", rep.stats.evaluations);
  // distinct non-trivial single-character patterns: counted, not hashed one by one
  rep.extra.insert("single_character_patterns_nontrivial".into(), json!(single_nt));
  rep.stats.nontrivial_samples.push(json!({"patterns": ["*"], "note": "single-character sweep covers U+0001..U+10FFFF"}));
  let bad_unknown: Vec<&(char, Violation)> = bad_all.iter().filter(|(_, v)| findings.is_known("C17", v).is_none()).collect();
  if !bad_unknown.is_empty() {
    let (c, v) = bad_unknown[0];
    let mut v = v.clone();
    v.detail = format!("{} | {} single characters fail in total, e.g. {:?}", v.detail, bad_unknown.len(), bad_unknown.iter().take(12).map(|(c, _)| format!("U+{:04X}", *c as u32)).collect::<Vec<_>>());
    let path = write_replay("C17", &v, &json!({"patterns": [c.to_string()]}));
    rep.violations.push((v, path));
    return rep;
  }
  // pairs (thorough: triples) over the syntax alphabet
  let mut combos: Vec<String> = Vec::new();
  for a in SYNTAX {
    for b in SYNTAX {
      combos.push(format!("{}{}", a, b));
      if !quick {
        for c in SYNTAX {
          combos.push(format!("{}{}{}", a, b, c));
        }
      }
    }
  }
  let combos_ref = &combos;
  let per = (combos.len() + 63) / 64;
  let res: Vec<Option<(String, Violation)>> = par_map(cfg.threads, 64, |ci| {
    for s in combos_ref.iter().skip(ci * per).take(per) {
      if let Err(e) = run_guarded(|| check_patterns(&[s])) {
        if findings.is_known("C17", &e).is_none() {
          return Some((s.clone(), e));
        }
      }
    }
    None
  });
  rep.stats.evaluations += combos.len() as u64;
  rep.stats.count("syntax-combinations-enumerated", combos.len() as u64);
  for s in &combos {
    rep.stats.nontrivial_case(hash64(s));
  }
  if let Some((s, v)) = res.into_iter().flatten().next() {
    let path = write_replay("C17", &v, &json!({"patterns": [s]}));
    rep.violations.push((v, path));
    return rep;
  }
  // random strings and lists
  let (st, fail) = run_prop(
    cfg,
    "C17-patterns",
    16,
    if quick { 120_000 } else { 300_000 },
    32,
    1500,
    |src: &mut Src| {
      let mut n = src.weighted(&[5, 55, 20, 12, 8]);
      // now and then a list long enough for the line to pass 2 KiB, 4 KiB, 8 KiB
      if src.chance(3) {
        n = src.pick(&[30usize, 50, 64, 100, 130, 260]);
      }
      (0..n).map(|i| {
        if n >= 30 {
          // device-name sized patterns (few choices each, so that the tape lasts); some begin
          // with a comment character
          let lead = src.pick(&["", "", "", "#", ";", "# ", " ", "\\", "-"]);
          let body = src.pick(&["Logitech USB Receiver", "AT Translated Set 2 keyboard", "Numeric-Keypad", "*Mouse*", "Dell KB216 Wired Keyboard", "x"]);
          format!("{}{}-{}-{}", lead, i, body, src.below(1000))
        } else {
          gen_pattern(src)
        }
      }).collect::<Vec<String>>()
    },
    |pats: &Vec<String>, stats: &mut Stats| {
      let refs: Vec<&str> = pats.iter().map(|s| s.as_str()).collect();
      stats.label(&format!("patterns:{}", pats.len()));
      match check_patterns(&refs) {
        Ok(()) => {}
        Err(v) => {
          if let Some(k) = findings.is_known("C17", &v) {
            stats.known(&k.signature);
          } else {
            return Err(v);
          }
        }
      }
      if pats.iter().any(|p| needs_care(p)) {
        stats.label("non-trivial");
        stats.nontrivial_case(hash64(pats));
        if stats.want_nontrivial_sample() && pats.iter().map(|p| p.len()).sum::<usize>() < 60 {
          stats.nontrivial_samples.push(json!({"patterns": pats, "unit_line": crate::udev_utils::verif_build_service_text(&refs).lines().last().unwrap_or("")}));
        }
      }
      Ok(())
    },
  );
  rep.stats.merge(st);
  if let Some(f) = fail {
    // minimise: fewer patterns, shorter patterns
    let kind = f.violation.kind.clone();
    let fails = |p: &Vec<String>| -> bool {
      let refs: Vec<&str> = p.iter().map(|s| s.as_str()).collect();
      !p.iter().any(|s| s.is_empty()) && matches!(run_guarded(|| check_patterns(&refs)), Err(v) if v.kind == kind)
    };
    let mut best = f.case.clone();
    let mut changed = true;
    while changed {
      changed = false;
      for i in (0..best.len()).rev() {
        let mut c = best.clone();
        c.remove(i);
        if fails(&c) {
          best = c;
          changed = true;
        }
      }
      for i in 0..best.len() {
        let chars: Vec<char> = best[i].chars().collect();
        for j in (0..chars.len()).rev() {
          let mut cs: Vec<char> = best[i].chars().collect();
          if j < cs.len() && cs.len() > 1 {
            cs.remove(j);
            let mut c = best.clone();
            c[i] = cs.into_iter().collect();
            if fails(&c) {
              best = c;
              changed = true;
            }
          }
        }
      }
    }
    let refs: Vec<&str> = best.iter().map(|s| s.as_str()).collect();
    let v2 = run_guarded(|| check_patterns(&refs)).err().unwrap_or(f.violation);
    let path = write_replay("C17", &v2, &json!({"patterns": best}));
    rep.violations.push((v2, path));
    return rep;
  }
  // the single-character sweep is the enumerated slice
  rep.exhaustive = false;
  rep.extra.insert("exhaustive_slices".into(), json!(["every single Unicode scalar value except NUL", if quick { "every pair over the syntax alphabet" } else { "every pair and triple over the syntax alphabet" }]));
  rep.assumptions = vec![
    "the decoder is a transcription of systemd's documented behaviour (systemd.syntax, systemd.service 'Command lines', systemd.unit 'Specifiers') and of extract_first_word(EXTRACT_UNQUOTE|EXTRACT_CUNESCAPE); unknown % letters and a trailing % stay literal as in specifier_printf".to_string(),
    "environment of the model: PATH, LANG, USER, LOGNAME, HOME, SHELL, INVOCATION_ID set, everything else unset".to_string(),
    "systemd's UTF-8 validity check of unit file lines (noncharacters such as U+FFFE) is not modelled".to_string(),
  ];
  // count the non-trivial single characters into the measured total through a hash per character
  for v in 1u32..0x110000 {
    if let Some(c) = char::from_u32(v) {
      if !(c.is_ascii_alphanumeric() || "-_.,:/".contains(c)) {
        rep.stats.nontrivial.insert(hash64(&("single", v)));
      }
    }
  }
  rep
}

pub fn replay(file: &str) -> Result<(), Violation> {
  let text = std::fs::read_to_string(file).map_err(|e| Violation::new("io", format!("cannot read {}: {}", file, e)))?;
  let v: Value = serde_json::from_str(&text).map_err(|e| Violation::new("io", e.to_string()))?;
  let case = v.get("case").unwrap_or(&v);
  let pats: Vec<String> = case.get("patterns").and_then(|a| a.as_array()).map(|a| a.iter().filter_map(|x| x.as_str().map(|s| s.to_string())).collect()).ok_or_else(|| Violation::new("io", "no patterns".to_string()))?;
  let refs: Vec<&str> = pats.iter().map(|s| s.as_str()).collect();
  run_guarded(|| check_patterns(&refs))
}
