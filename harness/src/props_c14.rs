// C14: any layout file is either rejected with a message or runs without crashing.
// Generators: (1) JSON trees over a vocabulary, (2) structure-aware mutants of valid layouts
// (built-ins, README examples, C13 programs), (3) raw bytes (here: byte-level mutants of valid
// texts; coverage-guided bytes live in the fuzz target). Every input is written to a file and
// loaded with the real load_layout_from_file; accepted layouts are installed in the mapper
// and driven with a generated history. Oracle: no panic anywhere.

use crate::engine::*;
use crate::evidence::*;
use crate::findings::Findings;
use crate::history::*;
use crate::kb::*;
use crate::key_transforms::Mapper;
use crate::keys::{Event, KeyCode, Layout};
use crate::layouts::*;
use crate::tape::Src;
use serde_json::{json, Map, Value};
use std::cell::RefCell;

#[derive(Clone, Debug)]
pub struct C14Case {
  pub origin: String,
  pub bytes: Vec<u8>,
  pub history_tape: Vec<u32>,
}

impl C14Case {
  pub fn to_json(&self) -> Value {
    json!({
      "origin": self.origin,
      "text": String::from_utf8_lossy(&self.bytes),
      "bytes_hex": self.bytes.iter().map(|b| format!("{:02x}", b)).collect::<String>(),
      "history_tape": self.history_tape,
    })
  }
  pub fn from_json(v: &Value) -> Result<C14Case, String> {
    let hex = v.get("bytes_hex").and_then(|x| x.as_str()).ok_or("no bytes_hex")?;
    let bytes: Vec<u8> = (0..hex.len() / 2).map(|i| u8::from_str_radix(&hex[2 * i..2 * i + 2], 16).unwrap_or(0)).collect();
    let history_tape: Vec<u32> = v.get("history_tape").and_then(|x| x.as_array()).map(|a| a.iter().map(|x| x.as_u64().unwrap_or(0) as u32).collect()).unwrap_or_default();
    Ok(C14Case { origin: v.get("origin").and_then(|x| x.as_str()).unwrap_or("replay").to_string(), bytes, history_tape })
  }
}

// ---- vocabulary -----------------------------------------------------------------------------

const KEY_WORDS: &[&str] = &[
  "A", "B", "S", "Q", "Z", "J", "SPACE", "ENTER", "ESC", "TAB", "CAPSLOCK", "LEFTSHIFT", "RIGHTSHIFT", "LEFTCTRL", "LEFTALT", "RIGHTALT", "LEFTMETA", "GRAVE", "SEMICOLON", "F13", "F24",
  "0", "1", "9", "K1", "K0", "a", "leftshift", "Leftshift", "KEY_A", "", " ", "NOPE", "UNKNOWN", "ROTATE_LOCK_TOGGLE", "10", "-1",
];
const ALIAS_WORDS: &[&str] = &["@shift", "@symbol", "@a", "@", "@@", "@undefined", "@Shift"];
const ROW_WORDS: &[&str] = &["`", "1", "Q", "A", "Z", "q", "a", "z", "2", "", "QQ", "TAB"];
const FIELD_WORDS: &[&str] = &["mappings", "from", "to", "repeat", "absorbing", "row", "letters", "Special", "keys", "delay_ms", "interval_ms", "no_repeat_keys", "From", "special", "x"];
const LETTER_STRINGS: &[&str] = &["aoeu", "AOEU", " {}% \\*][|~", "   = &)(/_$", "", " ", "a", "\u{e9}", "17531902468`", "17531902468`xx", ";,.pyfgcrl~@", "'qjkxbmwvz", "\"QJKXBMWVZ", "\t", "aaaaaaaaaaaaaaaaaaaaaaaaaaaaaaaaaaaaaaaa", "\u{1F600}", "a b"];

fn gen_number(src: &mut Src) -> Value {
  match src.below(14) {
    0 => json!(0),
    1 => json!(1),
    2 => json!(30),
    3 => json!(180),
    4 => json!(-1),
    5 => json!(i32::MAX),
    6 => json!(i32::MIN),
    7 => json!(i64::MAX),
    8 => json!(i64::MIN),
    9 => json!(u64::MAX),
    10 => json!(1.5),
    11 => json!(1e300),
    12 => json!(-0.0),
    _ => json!(src.u32() as i64 - (1i64 << 31)),
  }
}

// long strings of multi-byte characters with a short ASCII prefix: byte offsets such as 64,
// 100, 200, 256 fall inside a character for some prefix length
fn gen_long_unicode(src: &mut Src) -> String {
  let prefix = src.below(4);
  let ch = src.pick(&['\u{e9}', '\u{20ac}', '\u{65e5}', '\u{1F600}', '\u{a7}']);
  let n = src.pick(&[20usize, 33, 50, 70, 100, 130, 260]);
  let mut s: String = std::iter::repeat('x').take(prefix).collect();
  for i in 0..n {
    s.push(ch);
    if i % 17 == 16 {
      s.push(' ');
    }
  }
  s
}

fn gen_scalar(src: &mut Src) -> Value {
  if src.chance(3) {
    return Value::String(gen_long_unicode(src));
  }
  match src.below(8) {
    0 => Value::Null,
    1 => Value::Bool(src.chance(50)),
    2 => gen_number(src),
    3 => Value::String(src.pick(KEY_WORDS).to_string()),
    4 => Value::String(src.pick(ALIAS_WORDS).to_string()),
    5 => Value::String(src.pick(LETTER_STRINGS).to_string()),
    6 => Value::String(src.pick(FIELD_WORDS).to_string()),
    _ => Value::String(src.pick(&["Normal", "Disabled", "normal", "DISABLED", "Special", "weird"]).to_string()),
  }
}

fn gen_any(src: &mut Src, depth: usize) -> Value {
  if depth == 0 {
    return gen_scalar(src);
  }
  match src.below(10) {
    0..=4 => gen_scalar(src),
    5 | 6 => {
      let n = src.below(4);
      Value::Array((0..n).map(|_| gen_any(src, depth - 1)).collect())
    }
    7 | 8 => {
      let n = src.below(4);
      let mut m = Map::new();
      for _ in 0..n {
        m.insert(src.pick(FIELD_WORDS).to_string(), gen_any(src, depth - 1));
      }
      Value::Object(m)
    }
    _ => {
      // deep nesting
      let d = src.pick(&[3usize, 20, 130, 200]);
      let mut v = gen_scalar(src);
      for _ in 0..d {
        v = if src.chance(50) { Value::Array(vec![v]) } else { json!({ "from": v }) };
      }
      v
    }
  }
}

fn gen_key_like(src: &mut Src) -> Value {
  match src.weighted(&[70, 12, 6, 6, 6]) {
    0 => Value::String(src.pick(&KEY_WORDS[..26]).to_string()),
    1 => Value::String(src.pick(ALIAS_WORDS).to_string()),
    2 => Value::String(src.pick(KEY_WORDS).to_string()),
    3 => json!({"row": src.pick(ROW_WORDS)}),
    _ => gen_any(src, 2),
  }
}

fn gen_keys_field(src: &mut Src, allow_row: bool, allow_letters: bool) -> Value {
  match src.weighted(&[22, 50, 8, 10, 10]) {
    0 => gen_key_like(src),
    1 => {
      let n = src.below(5);
      let mut elems: Vec<Value> = (0..n).map(|_| gen_key_like(src)).collect();
      // duplicates happen by themselves with a small vocabulary; force one now and then
      if !elems.is_empty() && src.chance(12) {
        let d = elems[src.below(elems.len())].clone();
        elems.push(d);
      }
      if allow_row && src.chance(20) {
        elems.push(json!({"row": src.pick(ROW_WORDS)}));
      }
      if allow_letters && src.chance(25) {
        elems.push(json!({"letters": src.pick(LETTER_STRINGS)}));
      }
      Value::Array(elems)
    }
    2 => json!({"row": src.pick(ROW_WORDS)}),
    3 => json!({"letters": src.pick(LETTER_STRINGS)}),
    _ => gen_any(src, 2),
  }
}

fn gen_repeat_field(src: &mut Src) -> Value {
  match src.weighted(&[15, 20, 50, 15]) {
    0 => Value::String(src.pick(&["Normal", "normal", "NORMAL", "nOrmal"]).to_string()),
    1 => Value::String(src.pick(&["Disabled", "disabled", "weird", ""]).to_string()),
    2 => {
      let mut sp = Map::new();
      if !src.chance(6) {
        sp.insert("keys".into(), gen_keys_field(src, false, true));
      }
      if !src.chance(6) {
        sp.insert("delay_ms".into(), if src.chance(75) { gen_number(src) } else { gen_any(src, 1) });
      }
      if !src.chance(6) {
        sp.insert("interval_ms".into(), if src.chance(75) { gen_number(src) } else { gen_any(src, 1) });
      }
      if src.chance(5) {
        sp.insert("extra".into(), gen_scalar(src));
      }
      let name = if src.chance(92) { "Special" } else { src.pick(&["special", "Normal", "x"]) };
      let mut outer = Map::new();
      outer.insert(name.to_string(), if src.chance(93) { Value::Object(sp) } else { gen_any(src, 1) });
      Value::Object(outer)
    }
    _ => gen_any(src, 2),
  }
}

fn gen_mapping(src: &mut Src) -> Value {
  if src.chance(6) {
    return gen_any(src, 2);
  }
  let mut m = Map::new();
  if !src.chance(4) {
    m.insert("from".into(), gen_keys_field(src, true, false));
  }
  if !src.chance(12) {
    m.insert("to".into(), gen_keys_field(src, false, true));
  }
  if src.chance(40) {
    m.insert("repeat".into(), gen_repeat_field(src));
  }
  if src.chance(25) {
    m.insert("absorbing".into(), gen_keys_field(src, false, false));
  }
  if src.chance(4) {
    m.insert(src.pick(FIELD_WORDS).to_string(), gen_any(src, 1));
  }
  if src.chance(3) {
    m.insert("comment".to_string(), Value::String(gen_long_unicode(src)));
  }
  Value::Object(m)
}

pub fn gen_tree(src: &mut Src) -> Value {
  match src.weighted(&[80, 8, 12]) {
    0 => {
      let n = src.weighted(&[5, 30, 30, 20, 10, 5]);
      let mut maps: Vec<Value> = Vec::new();
      // alias definitions first, so alias uses have a chance to be valid
      if src.chance(50) {
        maps.push(json!({"from": src.pick(&["LEFTSHIFT", "CAPSLOCK", "RIGHTSHIFT"]), "to": src.pick(&["@shift", "@symbol", "@a"])}));
        if src.chance(50) {
          maps.push(json!({"from": src.pick(&["RIGHTSHIFT", "RIGHTALT", "LEFTSHIFT"]), "to": src.pick(&["@shift", "@symbol", "@a"])}));
        }
      }
      if src.chance(6) {
        // alias names that are joins of other alias names (separator-joined names are the classic
        // way two different lists collide in a derived key), used next to the lists themselves
        let (a, b) = (src.pick(&["@shift", "@ctrl", "@a"]), src.pick(&["@symbol", "@alt", "@b"]));
        let sep = src.pick(&["+", ",", " ", "|", "-", "", ", "]);
        let joined = format!("{}{}{}", a, sep, b);
        maps.push(json!({"from": "LEFTCTRL", "to": a}));
        maps.push(json!({"from": "LEFTALT", "to": b}));
        maps.push(json!({"from": "CAPSLOCK", "to": joined}));
        let k = src.pick(&["T", "SPACE", "A"]);
        let mut two = vec![json!({"from": [joined, k], "to": "F13"}), json!({"from": [a, b, k], "to": "F14"})];
        if src.chance(50) {
          two.reverse();
        }
        maps.extend(two);
      }
      for _ in 0..n {
        maps.push(gen_mapping(src));
      }
      let mut root = Map::new();
      root.insert("mappings".into(), Value::Array(maps));
      if src.chance(4) {
        root.insert(src.pick(FIELD_WORDS).to_string(), gen_any(src, 1));
      }
      Value::Object(root)
    }
    1 => json!({"mappings": gen_any(src, 2)}),
    _ => gen_any(src, 3),
  }
}

// ---- structure-aware mutation of valid layouts ------------------------------------------------

fn collect_paths(v: &Value, cur: &mut Vec<usize>, out: &mut Vec<Vec<usize>>) {
  out.push(cur.clone());
  match v {
    Value::Array(a) => {
      for (i, x) in a.iter().enumerate() {
        cur.push(i);
        collect_paths(x, cur, out);
        cur.pop();
      }
    }
    Value::Object(o) => {
      for (i, (_, x)) in o.iter().enumerate() {
        cur.push(i);
        collect_paths(x, cur, out);
        cur.pop();
      }
    }
    _ => {}
  }
}

fn node_mut<'a>(v: &'a mut Value, path: &[usize]) -> Option<&'a mut Value> {
  let mut cur = v;
  for &i in path {
    cur = match cur {
      Value::Array(a) => a.get_mut(i)?,
      Value::Object(o) => o.iter_mut().nth(i).map(|(_, x)| x)?,
      _ => return None,
    };
  }
  Some(cur)
}

fn mutate_once(src: &mut Src, root: &mut Value) -> &'static str {
  let mut paths = Vec::new();
  collect_paths(root, &mut Vec::new(), &mut paths);
  let path = paths[src.below(paths.len())].clone();
  let kind = src.below(12);
  let node = match node_mut(root, &path) {
    Some(n) => n,
    None => return "none",
  };
  match kind {
    0 => {
      *node = gen_any(src, 2);
      "replace-node"
    }
    1 => {
      match node {
        Value::Array(a) if !a.is_empty() => {
          let i = src.below(a.len());
          a.remove(i);
        }
        Value::Object(o) if !o.is_empty() => {
          let k = o.keys().nth(src.below(o.len())).cloned().unwrap();
          o.remove(&k);
        }
        _ => *node = Value::Null,
      }
      "delete"
    }
    2 | 3 => {
      if let Value::Array(a) = node {
        if !a.is_empty() {
          let i = src.below(a.len());
          let d = a[i].clone();
          let at = src.below(a.len() + 1);
          a.insert(at, d);
          return "duplicate-element";
        }
      }
      if let Value::String(s) = node {
        // a bare key becomes the same key twice
        let s2 = s.clone();
        *node = json!([s2.clone(), s2]);
        return "duplicate-element";
      }
      "none"
    }
    4 => {
      if let Value::Array(a) = node {
        a.clear();
        return "empty-array";
      }
      *node = json!([]);
      "empty-array"
    }
    5 => {
      if let Value::String(s) = node {
        *s = src.pick(ALIAS_WORDS).to_string();
        return "alias-in-key-position";
      }
      "none"
    }
    6 => {
      if let Value::String(s) = node {
        if s.starts_with('@') {
          *s = src.pick(KEY_WORDS).to_string();
        } else {
          s.push_str(src.pick(&["x", " ", "\u{e9}", "AAAAAAAAAAAAAAA", "\t"]));
        }
        return "edit-string";
      }
      "none"
    }
    7 => {
      if let Value::Number(_) = node {
        *node = gen_number(src);
        return "extreme-number";
      }
      *node = gen_number(src);
      "number-for-node"
    }
    8 => {
      if let Value::Object(o) = node {
        o.insert(src.pick(FIELD_WORDS).to_string(), gen_any(src, 1));
        return "extra-field";
      }
      "none"
    }
    9 => {
      if let Value::String(s) = node {
        *s = src.pick(KEY_WORDS).to_string();
        return "other-key";
      }
      "none"
    }
    10 => {
      // wrap / unwrap
      let inner = node.clone();
      *node = if src.chance(50) { Value::Array(vec![inner]) } else { json!({ "letters": inner }) };
      "wrap"
    }
    _ => {
      if let Value::Object(o) = node {
        if o.contains_key("letters") {
          o.insert("letters".into(), Value::String(src.pick(LETTER_STRINGS).to_string()));
          return "other-letters";
        }
        if o.contains_key("row") {
          o.insert("row".into(), Value::String(src.pick(ROW_WORDS).to_string()));
          return "other-row";
        }
      }
      "none"
    }
  }
}

fn base_layout_values() -> Vec<(String, Value)> {
  let mut out = Vec::new();
  let mut names: Vec<&String> = crate::default_fancy_layouts::DEFAULT_LAYOUTS.keys().collect();
  names.sort();
  for n in names {
    if let Ok(v) = serde_json::from_str::<Value>(crate::default_fancy_layouts::DEFAULT_LAYOUTS.get(n).unwrap()) {
      out.push((format!("builtin:{}", n), v));
    }
  }
  for (i, b) in readme_json_blocks().iter().enumerate() {
    if let Ok(v) = serde_json::from_str::<Value>(b) {
      let w = if v.get("mappings").is_some() { v } else { json!({ "mappings": [v] }) };
      out.push((format!("readme:{}", i), w));
    }
  }
  out
}

thread_local! {
  static BASES: RefCell<Option<Vec<(String, Value)>>> = RefCell::new(None);
}

fn with_bases<R>(f: impl FnOnce(&Vec<(String, Value)>) -> R) -> R {
  BASES.with(|b| {
    let mut b = b.borrow_mut();
    if b.is_none() {
      *b = Some(base_layout_values());
    }
    f(b.as_ref().unwrap())
  })
}

fn duplicate_member_in_text(src: &mut Src, text: &str) -> String {
  // duplicate JSON object keys in the text: `"from": X,` becomes `"from": X, "from": Y,`
  let field = src.pick(&["\"from\"", "\"to\"", "\"repeat\"", "\"mappings\"", "\"row\""]);
  if let Some(pos) = text.find(field) {
    let extra = format!("{}: {}, ", field, gen_any(src, 1));
    let mut t = text.to_string();
    t.insert_str(pos, &extra);
    t
  } else {
    text.to_string()
  }
}

pub fn gen_case(src: &mut Src) -> C14Case {
  let mode = src.weighted(&[40, 45, 15]);
  let (origin, bytes) = match mode {
    0 => {
      let v = gen_tree(src);
      ("tree".to_string(), if src.chance(20) { serde_json::to_vec_pretty(&v).unwrap() } else { serde_json::to_vec(&v).unwrap() })
    }
    1 => {
      let (name, mut v) = if src.chance(45) {
        let c = crate::props_c13::gen_case(src);
        ("c13-program".to_string(), c.json_a)
      } else {
        with_bases(|b| {
          let (n, v) = &b[src.below(b.len())];
          (n.clone(), v.clone())
        })
      };
      // large built-ins: keep a window of mappings so that mutations land where it matters
      if let Some(Value::Array(a)) = v.get_mut("mappings") {
        if a.len() > 8 && src.chance(70) {
          let start = src.below(a.len() - 4);
          let keep_alias: Vec<Value> = a.iter().filter(|m| m.get("to").and_then(|t| t.as_str()).map(|s| s.starts_with('@')).unwrap_or(false)).cloned().collect();
          let mut window: Vec<Value> = keep_alias;
          window.extend(a[start..(start + 4).min(a.len())].iter().cloned());
          *a = window;
        }
      }
      // (a generated program may also go in as it is: what the grammar can write is input too)
      let n_mut = if name == "c13-program" && src.chance(30) { 0 } else { src.range(1, 3) };
      let mut kinds = Vec::new();
      for _ in 0..n_mut {
        kinds.push(mutate_once(src, &mut v));
      }
      let mut text = serde_json::to_string(&v).unwrap();
      if src.chance(8) {
        text = duplicate_member_in_text(src, &text);
        kinds.push("duplicate-member");
      }
      (format!("mutant:{}:{}", name, kinds.join("+")), text.into_bytes())
    }
    _ => {
      // byte-level damage of a valid text
      let mut bytes: Vec<u8> = with_bases(|b| serde_json::to_vec(&b[src.below(b.len())].1).unwrap());
      if bytes.len() > 600 {
        bytes.truncate(600 + src.below(200));
      }
      let n = src.range(1, 4);
      for _ in 0..n {
        if bytes.is_empty() {
          break;
        }
        let i = src.below(bytes.len());
        match src.below(4) {
          0 => bytes[i] = src.below(256) as u8,
          1 => {
            bytes.remove(i);
          }
          2 => bytes.insert(i, src.pick(&[b'"', b'{', b'[', b',', b':', b'\\', 0xff, 0x00, b'@'])),
          _ => bytes.truncate(i),
        }
      }
      ("bytes".to_string(), bytes)
    }
  };
  let history_tape: Vec<u32> = (0..48).map(|_| src.u32()).collect();
  C14Case { origin, bytes, history_tape }
}

thread_local! {
  static SCRATCH: RefCell<Option<String>> = RefCell::new(None);
}

fn scratch_path() -> String {
  SCRATCH.with(|s| {
    let mut s = s.borrow_mut();
    if s.is_none() {
      let dir = if std::path::Path::new("/dev/shm").is_dir() { "/dev/shm".to_string() } else { std::env::temp_dir().to_string_lossy().to_string() };
      let id = std::thread::current().id();
      *s = Some(format!("{}/tmverif-c14-{}-{:?}.json", dir, std::process::id(), id).replace("ThreadId(", "t").replace(')', ""));
    }
    s.clone().unwrap()
  })
}

pub fn cleanup_scratch() {
  SCRATCH.with(|s| {
    if let Some(p) = s.borrow().as_ref() {
      let _ = std::fs::remove_file(p);
    }
  });
}

#[derive(Default, Clone, Debug)]
pub struct C14Facts {
  pub reached_mappings: bool,
  pub accepted: bool,
  pub events_driven: usize,
}

pub fn panic_signature(msg: &str) -> String {
  if msg.contains("Duplicate key in from") || msg.contains("Duplicate key in to") {
    "duplicate-key-in-trigger-or-output".to_string()
  } else {
    String::new()
  }
}

pub fn run_case(c: &C14Case, facts: &mut C14Facts) -> Result<(), Violation> {
  let path = scratch_path();
  std::fs::write(&path, &c.bytes).map_err(|e| Violation::new("io", format!("cannot write scratch file: {}", e)))?;
  if let Ok(v) = serde_json::from_slice::<Value>(&c.bytes) {
    facts.reached_mappings = v.get("mappings").map(|m| m.is_array()).unwrap_or(false) && v.as_object().map(|o| o.len() == 1).unwrap_or(false);
  }
  let loaded = std::panic::catch_unwind(|| crate::layout_loading::load_layout_from_file(&path));
  let layout = match loaded {
    Err(p) => {
      let msg = panic_message(&p);
      return Err(Violation::with_sig("panic-while-loading", &panic_signature(&msg), format!("loading panicked: {}", msg)));
    }
    Ok(Err(_msg)) => return Ok(()),
    Ok(Ok(l)) => l,
  };
  facts.accepted = true;
  let mut mapper = match std::panic::catch_unwind(|| Mapper::for_layout(&layout)) {
    Ok(m) => m,
    Err(p) => {
      let msg = panic_message(&p);
      return Err(Violation::with_sig("panic-installing-accepted-layout", &panic_signature(&msg), format!("the loader accepted the layout [{}] but Mapper::for_layout panicked: {}", layout_text(&layout), msg)));
    }
  };
  let mut alphabet: Vec<KeyCode> = trigger_keys(&layout).0.clone();
  for m in &layout.mappings {
    for k in &m.to {
      if !alphabet.contains(k) && alphabet.len() < 10 {
        alphabet.push(*k);
      }
    }
  }
  alphabet.truncate(10);
  if alphabet.is_empty() {
    alphabet.push(KeyCode::A);
  }
  let mut src = Src::new(&c.history_tape);
  let steps = gen_history(&mut src, &alphabet, &HistOpts { max_events: 20, max_held: 5, raw_percent: 10, release_all_percent: 5, marathon_taps: 0 });
  facts.events_driven = steps.len();
  let r = std::panic::catch_unwind(std::panic::AssertUnwindSafe(|| {
    for s in &steps {
      match s {
        Step::Ev(e) => {
          mapper.step(e.clone());
        }
        Step::ReleaseAll => {
          mapper.release_all();
        }
      }
    }
  }));
  if let Err(p) = r {
    let msg = panic_message(&p);
    return Err(Violation::with_sig("panic-driving-accepted-layout", &panic_signature(&msg), format!("the loader accepted the layout [{}] but driving it with [{}] panicked: {}", layout_text(&layout), steps_text(&steps), msg)));
  }
  Ok(())
}

// Greedy structural minimisation of a failing JSON text: delete array elements and object
// members while the same kind of violation remains; then shorten the history tape.
fn minimise(case: &C14Case, kind: &str, findings: &Findings) -> C14Case {
  let fails = |c: &C14Case| -> bool {
    let mut facts = C14Facts::default();
    match run_case(c, &mut facts) {
      Err(v) => v.kind == kind && findings.is_known("C14", &v).is_none(),
      Ok(()) => false,
    }
  };
  let mut best = case.clone();
  if !fails(&best) {
    return best;
  }
  // history: try the empty tape
  let mut c = best.clone();
  c.history_tape = vec![];
  if fails(&c) {
    best = c;
  }
  if let Ok(mut v) = serde_json::from_slice::<Value>(&best.bytes) {
    let mut changed = true;
    let mut rounds = 0;
    while changed && rounds < 20 {
      changed = false;
      rounds += 1;
      let mut paths = Vec::new();
      collect_paths(&v, &mut Vec::new(), &mut paths);
      paths.sort_by(|a, b| b.len().cmp(&a.len()).then(b.cmp(a)));
      for path in paths {
        if path.is_empty() {
          continue;
        }
        let mut v2 = v.clone();
        let (parent_path, idx) = (&path[..path.len() - 1], path[path.len() - 1]);
        let removed = match node_mut(&mut v2, parent_path) {
          Some(Value::Array(a)) if idx < a.len() => {
            a.remove(idx);
            true
          }
          Some(Value::Object(o)) if idx < o.len() => {
            let k = o.keys().nth(idx).cloned().unwrap();
            o.remove(&k);
            true
          }
          _ => false,
        };
        if !removed {
          continue;
        }
        let c = C14Case { origin: best.origin.clone(), bytes: serde_json::to_vec(&v2).unwrap(), history_tape: best.history_tape.clone() };
        if fails(&c) {
          v = v2;
          best = c;
          changed = true;
          break;
        }
      }
    }
  }
  best
}

pub fn check(cfg: &RunCfg, findings: &Findings) -> Report {
  let mut rep = Report::new(
    "C14",
    "exploration",
    "input = layout file bytes from (1) JSON trees over the layout vocabulary, (2) structure-aware mutants of valid layouts (built-ins, README, generated programs): node replaced, field or element deleted or duplicated, emptied arrays, misplaced or undefined aliases, other rows / letters, extreme numbers, duplicated object members, (3) byte-level damage; accepted layouts are installed in the mapper and driven with a generated history; non-trivial = the input is a JSON object with exactly a `mappings` array (reaches per-mapping parsing); distinct = hash of the bytes",
  );
  let quick = cfg.tier == Tier::Quick;
  // regressions
  let reg_dir = format!("{}/regressions/C14", crate::findings::verif_dir());
  if std::env::var("VERIF_NO_REGRESSIONS").is_err() {
    if let Ok(rd) = std::fs::read_dir(&reg_dir) {
      let mut files: Vec<_> = rd.filter_map(|e| e.ok()).map(|e| e.path()).filter(|p| p.extension().map(|x| x == "json").unwrap_or(false)).collect();
      files.sort();
      for f in files {
        if let Ok(v) = serde_json::from_str::<Value>(&std::fs::read_to_string(&f).unwrap_or_default()) {
          if let Ok(c) = C14Case::from_json(v.get("case").unwrap_or(&v)) {
            rep.stats.evaluations += 1;
            rep.stats.count("regression-replays", 1);
            let mut facts = C14Facts::default();
            if let Err(v) = run_case(&c, &mut facts) {
              if findings.is_known("C14", &v).is_none() {
                rep.violations.push((v, f.to_string_lossy().to_string()));
                return rep;
              }
            }
          }
        }
      }
    }
  }
  let (st, fail) = run_prop(
    cfg,
    "C14-inputs",
    16,
    if quick { 120_000 } else { 400_000 },
    96,
    420,
    |src: &mut Src| gen_case(src),
    |c: &C14Case, stats: &mut Stats| {
      let mut facts = C14Facts::default();
      let r = run_case(c, &mut facts);
      let origin_class = c.origin.split(':').next().unwrap_or("?").to_string();
      stats.label(&format!("origin:{}", origin_class));
      if facts.reached_mappings {
        stats.label("reaches-per-mapping-parsing");
        stats.nontrivial_case(hash64(&c.bytes));
      }
      if facts.accepted {
        stats.label("accepted-and-driven");
        stats.count("events-driven", facts.events_driven as u64);
        if stats.want_nontrivial_sample() && c.bytes.len() < 400 {
          stats.nontrivial_samples.push(json!({"origin": c.origin, "accepted": true, "text": String::from_utf8_lossy(&c.bytes)}));
        }
      } else if stats.want_sample() && c.bytes.len() < 300 {
        stats.samples.push(json!({"origin": c.origin, "accepted": false, "text": String::from_utf8_lossy(&c.bytes)}));
      }
      match r {
        Ok(()) => Ok(()),
        Err(v) => {
          if let Some(k) = findings.is_known("C14", &v) {
            stats.known(&k.signature);
            Ok(())
          } else {
            Err(v)
          }
        }
      }
    },
  );
  rep.stats.merge(st);
  cleanup_scratch();
  if let Some(f) = fail {
    let min = minimise(&f.case, &f.violation.kind, findings);
    let mut facts = C14Facts::default();
    let v2 = run_case(&min, &mut facts).err().unwrap_or(f.violation);
    cleanup_scratch();
    let path = write_replay("C14", &v2, &min.to_json());
    rep.violations.push((v2, path));
    return rep;
  }
  crate::fuzzstage::stage(&mut rep, cfg, "fz_loader", 14, 1_600_000, 1500);
  rep.assumptions = vec![
    "panics are observed with catch_unwind; a process abort would end the check with a non-zero status that is not 1 and is reported as an infrastructure failure".to_string(),
    "the mapper is driven directly; the event loop's handling of negative repeat delays is outside this property (see DESIGN.md, limits)".to_string(),
  ];
  rep
}

pub fn replay(file: &str) -> Result<(), Violation> {
  let text = std::fs::read_to_string(file).map_err(|e| Violation::new("io", format!("cannot read {}: {}", file, e)))?;
  let v: Value = serde_json::from_str(&text).map_err(|e| Violation::new("io", e.to_string()))?;
  let c = C14Case::from_json(v.get("case").unwrap_or(&v)).map_err(|e| Violation::new("io", e))?;
  let mut facts = C14Facts::default();
  let r = run_case(&c, &mut facts);
  cleanup_scratch();
  r
}
