// Choice tape: every generator of the harness is a plain function from a finite sequence of
// u32 choices to a case. The tape itself is produced (and shrunk) by proptest
// (`vec(any::<u32>(), ..)`), or decoded from fuzzer bytes; the generator makes *all* of its
// random decisions through `Src`, so a run is a pure function of the tape and shrinking
// (shorter tape, smaller numbers) moves every decision toward its first / simplest alternative.

pub struct Src<'a> {
  tape: &'a [u32],
  pos: usize,
}

impl<'a> Src<'a> {
  pub fn new(tape: &'a [u32]) -> Src<'a> {
    Src { tape, pos: 0 }
  }

  #[inline]
  fn raw(&mut self) -> u32 {
    let v = if self.pos < self.tape.len() { self.tape[self.pos] } else { 0 };
    self.pos += 1;
    v
  }

  pub fn used(&self) -> usize {
    self.pos
  }

  pub fn exhausted(&self) -> bool {
    self.pos >= self.tape.len()
  }

  // uniform in 0..n, monotone in the tape value (0 -> 0)
  #[inline]
  pub fn below(&mut self, n: usize) -> usize {
    if n <= 1 {
      // still consume nothing: a choice among one alternative is no choice
      return 0;
    }
    ((self.raw() as u64 * n as u64) >> 32) as usize
  }

  // uniform in lo..=hi
  #[inline]
  pub fn range(&mut self, lo: usize, hi: usize) -> usize {
    debug_assert!(hi >= lo);
    lo + self.below(hi - lo + 1)
  }

  // true with probability percent/100; an exhausted or zeroed tape answers false
  #[inline]
  pub fn chance(&mut self, percent: u32) -> bool {
    let v = self.raw() as u64;
    let threshold = ((100 - percent.min(100)) as u64 * (1u64 << 32)) / 100;
    percent > 0 && v >= threshold
  }

  pub fn pick<T: Clone>(&mut self, xs: &[T]) -> T {
    assert!(!xs.is_empty());
    xs[self.below(xs.len())].clone()
  }

  // index drawn with the given weights; index 0 for a zeroed tape
  pub fn weighted(&mut self, ws: &[u32]) -> usize {
    let total: u64 = ws.iter().map(|w| *w as u64).sum();
    assert!(total > 0);
    let mut x = (self.raw() as u64 * total) >> 32;
    for (i, w) in ws.iter().enumerate() {
      if x < *w as u64 {
        return i;
      }
      x -= *w as u64;
    }
    ws.len() - 1
  }

  pub fn u32(&mut self) -> u32 {
    self.raw()
  }

  // a subset of xs, each element kept with the given probability
  pub fn subset<T: Clone>(&mut self, xs: &[T], percent: u32) -> Vec<T> {
    let mut out = Vec::new();
    for x in xs {
      if self.chance(percent) {
        out.push(x.clone());
      }
    }
    out
  }

  // k distinct elements of xs (k <= len), in drawn order
  pub fn distinct<T: Clone>(&mut self, xs: &[T], k: usize) -> Vec<T> {
    let mut pool: Vec<T> = xs.to_vec();
    let mut out = Vec::new();
    for _ in 0..k.min(xs.len()) {
      let i = self.below(pool.len());
      out.push(pool.remove(i));
    }
    out
  }

  pub fn shuffle<T>(&mut self, xs: &mut Vec<T>) {
    // Fisher-Yates driven by the tape; a zeroed tape leaves the order unchanged
    let n = xs.len();
    for i in 0..n {
      let j = i + self.below(n - i);
      xs.swap(i, j);
    }
  }
}

// Fuzzer bytes -> tape (two bytes per choice, high-order aligned)
pub fn tape_from_bytes(bytes: &[u8]) -> Vec<u32> {
  bytes.chunks(2).map(|c| {
    let hi = c[0] as u32;
    let lo = if c.len() > 1 { c[1] as u32 } else { 0 };
    (hi << 24) | (lo << 16)
  }).collect()
}

pub fn splitmix64(mut x: u64) -> u64 {
  x = x.wrapping_add(0x9E3779B97F4A7C15);
  let mut z = x;
  z = (z ^ (z >> 30)).wrapping_mul(0xBF58476D1CE4E5B9);
  z = (z ^ (z >> 27)).wrapping_mul(0x94D049BB133111EB);
  z ^ (z >> 31)
}

pub fn seed32(seed: u64, label: &str, shard: u64) -> [u8; 32] {
  let mut h: u64 = splitmix64(seed ^ 0x5151_7a7a_0000_0001);
  for b in label.bytes() {
    h = splitmix64(h ^ b as u64);
  }
  h = splitmix64(h ^ shard.wrapping_mul(0x1000_0000_01b3));
  let mut out = [0u8; 32];
  for i in 0..4 {
    h = splitmix64(h);
    out[i * 8..i * 8 + 8].copy_from_slice(&h.to_le_bytes());
  }
  out
}

// A small deterministic generator for places where a tape is derived from a seed without
// proptest (enumerator-side sampling such as alphabets for catalogue layouts).
pub fn tape_from_seed(seed: u64, label: &str, idx: u64, len: usize) -> Vec<u32> {
  let s = seed32(seed, label, idx);
  let mut h = u64::from_le_bytes([s[0], s[1], s[2], s[3], s[4], s[5], s[6], s[7]]);
  (0..len).map(|_| {
    h = splitmix64(h);
    (h >> 32) as u32
  }).collect()
}
