// Scripted driver for the real per-device loop (hook H2): a small world model of two
// edge-triggered devices, a delivery schedule, a full trace of every driver call with
// monotonic timestamps, and single-call fault injection.

use crate::kb::*;
use crate::keys::{Event, KeyCode, Layout};
use crate::remapping_loop::verif::{ScriptedDriver, VDevice, VNext, VPoll, VTablet};
use crate::tape::Src;
use serde_json::{json, Value};
use std::collections::VecDeque;
use std::time::{Duration, Instant};

#[derive(Clone, Debug, PartialEq)]
pub enum Action {
  // new input arrives; the devices whose edge is pending are reported in the given order
  Arrive {
    kb: usize,                // keyboard events arriving before the wake-up
    tablet: Vec<bool>,        // tablet events (true = On)
    tablet_first: bool,       // report order when both are ready
    mid: Vec<(usize, usize)>, // (after the j-th keyboard read of this drain, m more events arrive)
    spurious_kb: bool,        // report the keyboard even if nothing arrived for it
  },
  TimedOut,
  Interrupted,
}

#[derive(Clone, Debug)]
pub struct Script {
  pub kb_events: Vec<Event>,
  pub actions: Vec<Action>,
  pub end_in_same_drain: bool,
  pub real_sleep: bool,
  // (index of a TimedOut action, milliseconds): that poll blocks this long whatever timeout was
  // asked for - the process was stopped or the machine suspended
  pub stall: Option<(usize, u64)>,
}

impl Script {
  pub fn to_json(&self) -> Value {
    json!({
      "kb_events": self.kb_events.iter().map(ev_text).collect::<Vec<_>>(),
      "end_in_same_drain": self.end_in_same_drain,
      "real_sleep": self.real_sleep,
      "stall": self.stall.map(|(i, ms)| json!([i, ms])),
      "actions": self.actions.iter().map(|a| match a {
        Action::Arrive { kb, tablet, tablet_first, mid, spurious_kb } => json!({"arrive": {"kb": kb, "tablet": tablet, "tablet_first": tablet_first, "mid": mid, "spurious_kb": spurious_kb}}),
        Action::TimedOut => json!("timed_out"),
        Action::Interrupted => json!("interrupted"),
      }).collect::<Vec<_>>(),
    })
  }
  pub fn from_json(v: &Value) -> Result<Script, String> {
    let kb_events: Vec<Event> = v.get("kb_events").and_then(|a| a.as_array()).ok_or("no kb_events")?.iter().map(|x| x.as_str().and_then(ev_from_text).ok_or_else(|| format!("bad event {}", x))).collect::<Result<_, _>>()?;
    let mut actions = Vec::new();
    for a in v.get("actions").and_then(|a| a.as_array()).ok_or("no actions")? {
      if a.as_str() == Some("timed_out") {
        actions.push(Action::TimedOut);
      } else if a.as_str() == Some("interrupted") {
        actions.push(Action::Interrupted);
      } else if let Some(o) = a.get("arrive") {
        actions.push(Action::Arrive {
          kb: o.get("kb").and_then(|x| x.as_u64()).unwrap_or(0) as usize,
          tablet: o.get("tablet").and_then(|x| x.as_array()).map(|x| x.iter().map(|b| b.as_bool().unwrap_or(false)).collect()).unwrap_or_default(),
          tablet_first: o.get("tablet_first").and_then(|x| x.as_bool()).unwrap_or(false),
          mid: o.get("mid").and_then(|x| x.as_array()).map(|x| x.iter().filter_map(|p| p.as_array().map(|p| (p[0].as_u64().unwrap_or(0) as usize, p[1].as_u64().unwrap_or(0) as usize))).collect()).unwrap_or_default(),
          spurious_kb: o.get("spurious_kb").and_then(|x| x.as_bool()).unwrap_or(false),
        });
      } else {
        return Err(format!("bad action {}", a));
      }
    }
    Ok(Script { kb_events, actions, end_in_same_drain: v.get("end_in_same_drain").and_then(|x| x.as_bool()).unwrap_or(false), real_sleep: v.get("real_sleep").and_then(|x| x.as_bool()).unwrap_or(false), stall: v.get("stall").and_then(|x| x.as_array()).and_then(|a| Some((a.get(0)?.as_u64()? as usize, a.get(1)?.as_u64()?))) })
  }
}

#[derive(Clone, Debug)]
pub enum CallKind {
  Register,
  Poll { timeout: Option<Duration>, ret: Option<VPoll>, lost_wakeup: Option<String> },
  NextKb { ret: Option<VNext<Event>> },
  NextTab { ret: Option<VNext<VTablet>> },
  Send { evs: Vec<Event> },
}

#[derive(Clone, Debug)]
pub struct Call {
  pub kind: CallKind,
  pub t_entry: Instant,
  pub t_ret: Instant,
  pub failed: bool, // the injected fault hit this call
}

// What the world looked like when a poll returned (for cutting a run into a prefix and a suffix)
#[derive(Clone, Debug)]
pub struct PollSnap {
  pub call_idx: usize,            // index of the poll in `calls`
  pub action_idx: Option<usize>,  // the scripted action it consumed (None: schedule exhausted)
  pub next_action: usize,
  pub kb_next: usize,             // keyboard events that have arrived so far
  pub kb_queue_len: usize,        // arrived and not yet read
  pub tab_queue_len: usize,
  pub pending_mid: bool,          // arrivals scheduled for the middle of the coming drain
}

pub struct Driver {
  pub poll_snaps: Vec<PollSnap>,
  script: Script,
  next_action: usize,
  kb_next: usize, // index of the next keyboard event that has not arrived yet
  kb_queue: VecDeque<Event>,
  kb_edge: bool,
  tab_queue: VecDeque<bool>,
  tab_edge: bool,
  pending_mid: Vec<(usize, usize)>,
  reads_this_drain: usize,
  kb_gone: bool, // end of device: an empty queue now reads as End
  pub end_returned: bool,
  pub calls: Vec<Call>,
  pub calls_after_end: usize,
  pub fail_at: Option<usize>, // 1-based index of the call that fails
  pub fault_hit: bool,
  pub calls_after_fault: usize,
  n_calls: usize,
  runaway_guard: usize,
}

pub fn fault_marker(k: usize) -> String {
  format!("injected-fault-#{}", k)
}

impl Driver {
  pub fn new(script: Script, fail_at: Option<usize>) -> Driver {
    Driver {
      poll_snaps: Vec::new(),
      script,
      next_action: 0,
      kb_next: 0,
      kb_queue: VecDeque::new(),
      kb_edge: false,
      tab_queue: VecDeque::new(),
      tab_edge: false,
      pending_mid: Vec::new(),
      reads_this_drain: 0,
      kb_gone: false,
      end_returned: false,
      calls: Vec::new(),
      calls_after_end: 0,
      fail_at,
      fault_hit: false,
      calls_after_fault: 0,
      n_calls: 0,
      runaway_guard: 0,
    }
  }

  // common prologue of every driver call; Some(err) = this call must fail
  fn enter(&mut self) -> Option<String> {
    self.n_calls += 1;
    if self.fault_hit {
      // calls after the failed one are recorded and answered normally (the property forbids
      // further writes, not further reads); a loop that never stops is cut off
      self.calls_after_fault += 1;
      self.runaway_guard += 1;
      if self.runaway_guard > 256 {
        panic!("loop keeps calling the driver after a failed call");
      }
      return None;
    }
    if self.end_returned {
      self.calls_after_end += 1;
      self.runaway_guard += 1;
      if self.runaway_guard > 64 {
        panic!("loop keeps calling the driver after end of device");
      }
      return Some("harness: call after end of device".to_string());
    }
    if Some(self.n_calls) == self.fail_at {
      self.fault_hit = true;
      return Some(fault_marker(self.n_calls));
    }
    None
  }

  fn arrive_kb(&mut self, n: usize) {
    let n = n.min(self.script.kb_events.len() - self.kb_next);
    for _ in 0..n {
      self.kb_queue.push_back(self.script.kb_events[self.kb_next].clone());
      self.kb_next += 1;
    }
    if n > 0 {
      self.kb_edge = true;
    }
  }
}

impl ScriptedDriver for Driver {
  fn register_poll(&mut self) -> Result<(), String> {
    let t0 = Instant::now();
    let fail = self.enter();
    self.calls.push(Call { kind: CallKind::Register, t_entry: t0, t_ret: Instant::now(), failed: fail.is_some() });
    match fail {
      Some(e) => Err(e),
      None => Ok(()),
    }
  }

  fn poll(&mut self, timeout: Option<Duration>) -> Result<VPoll, String> {
    let t0 = Instant::now();
    let lost = if !self.kb_queue.is_empty() && !self.kb_edge {
      Some(format!("keyboard has {} unread event(s) whose readiness was already reported", self.kb_queue.len()))
    } else if !self.tab_queue.is_empty() && !self.tab_edge {
      Some(format!("tablet switch has {} unread event(s) whose readiness was already reported", self.tab_queue.len()))
    } else {
      None
    };
    if let Some(e) = self.enter() {
      self.calls.push(Call { kind: CallKind::Poll { timeout, ret: None, lost_wakeup: lost }, t_entry: t0, t_ret: Instant::now(), failed: true });
      return Err(e);
    }
    self.pending_mid.clear();
    self.reads_this_drain = 0;
    let consumed: Option<usize> = if self.next_action >= self.script.actions.len() { None } else { Some(self.next_action) };
    let ret = if self.next_action >= self.script.actions.len() {
      // schedule exhausted: everything that has not arrived yet arrives now and the device ends
      let rest = self.script.kb_events.len() - self.kb_next;
      self.arrive_kb(rest);
      self.kb_gone = true;
      self.kb_edge = false;
      let mut devs = Vec::new();
      if self.tab_edge {
        self.tab_edge = false;
        devs.push(VDevice::Tablet);
      }
      devs.push(VDevice::Keyboard);
      VPoll::DeviceEvent(devs)
    } else {
      let a = self.script.actions[self.next_action].clone();
      self.next_action += 1;
      // a stalled poll (stopped process, suspend, slow device): whatever it reports, it reports late
      if let Some((idx, ms)) = self.script.stall {
        if idx == self.next_action - 1 {
          std::thread::sleep(Duration::from_millis(ms));
        }
      }
      match a {
        Action::TimedOut => {
          if self.script.real_sleep {
            if let Some(t) = timeout {
              std::thread::sleep(t.min(Duration::from_millis(20)));
            }
          }
          VPoll::TimedOut
        }
        Action::Interrupted => VPoll::Interrupted,
        Action::Arrive { kb, tablet, tablet_first, mid, spurious_kb } => {
          self.arrive_kb(kb);
          for t in &tablet {
            self.tab_queue.push_back(*t);
            self.tab_edge = true;
          }
          self.pending_mid = mid;
          let last_arrival = self.next_action >= self.script.actions.len() && self.kb_next >= self.script.kb_events.len();
          if last_arrival && self.script.end_in_same_drain && (self.kb_edge || spurious_kb) {
            self.kb_gone = true;
          }
          let mut devs = Vec::new();
          let kb_ready = self.kb_edge || spurious_kb;
          let tab_ready = self.tab_edge;
          if tablet_first {
            if tab_ready {
              devs.push(VDevice::Tablet);
            }
            if kb_ready {
              devs.push(VDevice::Keyboard);
            }
          } else {
            if kb_ready {
              devs.push(VDevice::Keyboard);
            }
            if tab_ready {
              devs.push(VDevice::Tablet);
            }
          }
          self.kb_edge = false;
          self.tab_edge = false;
          if devs.is_empty() {
            VPoll::TimedOut
          } else {
            VPoll::DeviceEvent(devs)
          }
        }
      }
    };
    self.poll_snaps.push(PollSnap { call_idx: self.calls.len(), action_idx: consumed, next_action: self.next_action, kb_next: self.kb_next, kb_queue_len: self.kb_queue.len(), tab_queue_len: self.tab_queue.len(), pending_mid: !self.pending_mid.is_empty() });
    self.calls.push(Call { kind: CallKind::Poll { timeout, ret: Some(ret.clone()), lost_wakeup: lost }, t_entry: t0, t_ret: Instant::now(), failed: false });
    Ok(ret)
  }

  fn next_keyboard(&mut self) -> Result<VNext<Event>, String> {
    let t0 = Instant::now();
    if let Some(e) = self.enter() {
      self.calls.push(Call { kind: CallKind::NextKb { ret: None }, t_entry: t0, t_ret: Instant::now(), failed: true });
      return Err(e);
    }
    // events that arrive in the middle of this drain
    let reads = self.reads_this_drain;
    let mids: Vec<(usize, usize)> = self.pending_mid.iter().cloned().filter(|(j, _)| *j == reads).collect();
    self.pending_mid.retain(|(j, _)| *j != reads);
    for (_, m) in mids {
      self.arrive_kb(m);
    }
    let ret = match self.kb_queue.pop_front() {
      Some(ev) => {
        self.reads_this_drain += 1;
        VNext::One(ev)
      }
      None => {
        if self.kb_gone {
          self.end_returned = true;
          VNext::End
        } else {
          VNext::Busy
        }
      }
    };
    self.calls.push(Call { kind: CallKind::NextKb { ret: Some(ret.clone()) }, t_entry: t0, t_ret: Instant::now(), failed: false });
    Ok(ret)
  }

  fn next_tablet(&mut self) -> Result<VNext<VTablet>, String> {
    let t0 = Instant::now();
    if let Some(e) = self.enter() {
      self.calls.push(Call { kind: CallKind::NextTab { ret: None }, t_entry: t0, t_ret: Instant::now(), failed: true });
      return Err(e);
    }
    let ret = match self.tab_queue.pop_front() {
      Some(true) => VNext::One(VTablet::On),
      Some(false) => VNext::One(VTablet::Off),
      None => VNext::Busy,
    };
    self.calls.push(Call { kind: CallKind::NextTab { ret: Some(ret.clone()) }, t_entry: t0, t_ret: Instant::now(), failed: false });
    Ok(ret)
  }

  fn send(&mut self, evs: &Vec<Event>) -> Result<(), String> {
    let t0 = Instant::now();
    let fail = self.enter();
    self.calls.push(Call { kind: CallKind::Send { evs: evs.clone() }, t_entry: t0, t_ret: Instant::now(), failed: fail.is_some() });
    match fail {
      Some(e) => Err(e),
      None => Ok(()),
    }
  }
}

#[derive(Clone, Copy, Debug)]
pub struct SchedOpts {
  pub tablet_percent: u32,   // chance that an arrival carries tablet events
  pub timeout_percent: u32,  // weight of TimedOut actions
  pub allow_interrupt: bool,
  pub max_batch: usize,
}

// Splits the keyboard history into arrival batches, interleaved with tablet events,
// time-outs and at most one interruption.
pub fn gen_script(src: &mut Src, kb_events: Vec<Event>, o: &SchedOpts, real_sleep: bool) -> Script {
  let mut actions = Vec::new();
  let mut remaining = kb_events.len();
  // an interruption is allowed whenever a device event has been reported since the last one
  // (two in a row without one make the real loop sleep for seconds: the slow slices do that)
  let mut interrupted = false;
  let mut guard = 0;
  while remaining > 0 && guard < 400 {
    guard += 1;
    let w_arrive = 100 - o.timeout_percent - if o.allow_interrupt && !interrupted { 4 } else { 0 };
    let kind = src.weighted(&[w_arrive, o.timeout_percent, if o.allow_interrupt && !interrupted { 4 } else { 0 }]);
    match kind {
      0 => {
        let mut kb = match src.weighted(&[8, 38, 20, 11, 7, 5, 5, 6]) {
          7 => src.range(7, 48), // a long burst in one notification
          n => n,
        };
        kb = kb.min(remaining).min(o.max_batch);
        remaining -= kb;
        let mut mid = Vec::new();
        if kb > 0 && remaining > 0 && src.chance(15) {
          let j = src.below(kb + 1);
          let m = src.range(1, 2).min(remaining);
          remaining -= m;
          mid.push((j, m));
        }
        let mut tablet = Vec::new();
        if src.chance(o.tablet_percent) {
          let n = src.range(1, 2);
          for _ in 0..n {
            tablet.push(src.chance(55));
          }
        }
        let tablet_first = src.chance(50);
        let spurious_kb = kb == 0 && src.chance(30);
        if kb > 0 || !tablet.is_empty() || spurious_kb {
          interrupted = false;
        }
        actions.push(Action::Arrive { kb, tablet, tablet_first, mid, spurious_kb });
      }
      1 => {
        let n = src.range(1, 4);
        for _ in 0..n {
          actions.push(Action::TimedOut);
        }
      }
      _ => {
        interrupted = true;
        actions.push(Action::Interrupted);
      }
    }
  }
  if remaining > 0 {
    actions.push(Action::Arrive { kb: remaining, tablet: vec![], tablet_first: false, mid: vec![], spurious_kb: false });
  }
  // trailing time-outs / tablet events after the last key event
  if src.chance(if o.timeout_percent >= 50 { 75 } else { 40 }) {
    let n = src.range(1, 3);
    for _ in 0..n {
      actions.push(Action::TimedOut);
    }
  }
  if src.chance(o.tablet_percent / 2) {
    actions.push(Action::Arrive { kb: 0, tablet: vec![src.chance(50)], tablet_first: true, mid: vec![], spurious_kb: false });
  }
  let end_in_same_drain = src.chance(40);
  Script { kb_events, actions, end_in_same_drain, real_sleep, stall: None }
}

pub fn run_loop(layout: &Layout, script: &Script, fail_at: Option<usize>) -> (Result<(), String>, Driver) {
  let mut d = Driver::new(script.clone(), fail_at);
  let r = crate::remapping_loop::verif::run_one_device(&mut d, layout.clone(), false);
  (r, d)
}
