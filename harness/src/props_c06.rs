// C06: after all physical keys are released, or after release_all, nothing is held on the
// output and the mapper answers every continuation exactly as a newly created mapper would.
// Differential oracle: used mapper vs fresh mapper, compared on StepResult only (internal
// state is never compared; H1 fingerprints only prune the product sweep).

use crate::engine::*;
use crate::evidence::*;
use crate::findings::Findings;
use crate::history::*;
use crate::kb::*;
use crate::key_transforms::{Mapper, ResultingRepeat, StepResult};
use crate::keys::{Event, KeyCode, Layout};
use crate::layouts::*;
use crate::mon::{Facts, Info, Mon};
use crate::tape::Src;
use serde_json::{json, Value};
use std::collections::{HashMap, HashSet, VecDeque};

#[derive(Clone, Debug)]
pub struct C06Case {
  pub layout: Layout,
  pub alphabet: Vec<KeyCode>,
  pub h1: Vec<Event>,
  pub release_all_cut: bool, // false: h1 itself ends with every physical key released
  pub h2: Vec<Event>,
  pub family: String,
}

impl C06Case {
  pub fn to_json(&self) -> Value {
    json!({
      "family": self.family,
      "layout": serde_json::to_value(&self.layout).unwrap(),
      "layout_text": layout_text(&self.layout),
      "alphabet": self.alphabet.iter().map(|k| key_name(*k)).collect::<Vec<_>>(),
      "h1": self.h1.iter().map(ev_text).collect::<Vec<_>>(),
      "cut": if self.release_all_cut { "release_all" } else { "rest" },
      "h2": self.h2.iter().map(ev_text).collect::<Vec<_>>(),
    })
  }
  pub fn from_json(v: &Value) -> Result<C06Case, String> {
    let layout: Layout = serde_json::from_value(v.get("layout").cloned().ok_or("no layout")?).map_err(|e| e.to_string())?;
    let keys = |name: &str| -> Vec<KeyCode> { v.get(name).and_then(|a| a.as_array()).map(|a| a.iter().filter_map(|x| x.as_str().and_then(key_from_name)).collect()).unwrap_or_default() };
    let evs = |name: &str| -> Result<Vec<Event>, String> {
      v.get(name).and_then(|a| a.as_array()).ok_or(format!("no {}", name))?.iter().map(|x| x.as_str().and_then(ev_from_text).ok_or_else(|| format!("bad event {}", x))).collect()
    };
    Ok(C06Case {
      layout,
      alphabet: keys("alphabet"),
      h1: evs("h1")?,
      release_all_cut: v.get("cut").and_then(|c| c.as_str()) == Some("release_all"),
      h2: evs("h2")?,
      family: v.get("family").and_then(|f| f.as_str()).unwrap_or("replay").to_string(),
    })
  }
}

fn step_result_text(r: &StepResult) -> String {
  format!("events [{}] repeat {:?}", evs_text(&r.events), r.repeat)
}

// returns (h1 fired an absorbing or no-repeat mapping, h2 fired a mapping)
pub fn run_c06_case(c: &C06Case) -> Result<(bool, bool), Violation> {
  let info = Info::new(&c.layout, &c.alphabet);
  let mut used = Mapper::for_layout(&c.layout);
  let mut out = KeySet::new();
  let mut phys = KeySet::new();
  let mut mon = Mon::new();
  let mut facts = Facts::default();
  let mut sink = Vec::new();
  for e in &c.h1 {
    let r = used.step(e.clone());
    fold_events(&mut out, &r.events);
    mon.on_step(&info, e, &r.events, &r.repeat, 0, &mut facts, &mut sink);
    match e {
      Event::Pressed(k) => {
        phys.insert(*k);
      }
      Event::Released(k) => {
        phys.remove(*k);
      }
    }
  }
  if c.release_all_cut {
    let evs = used.release_all();
    fold_events(&mut out, &evs);
  } else if !phys.is_empty() {
    return Err(Violation::new("io", "malformed case: rest cut with physical keys still held".to_string()));
  }
  if !out.is_empty() {
    return Err(Violation::new(
      "held-after-reset",
      format!("after h1 and the {} the output still holds {:?}", if c.release_all_cut { "release_all" } else { "release of every physical key" }, out.names()),
    ));
  }
  let h1_interesting = facts.windows_opened > 0 || facts.norepeat_fired > 0;
  if std::env::var("TM_DEBUG_ABS").is_ok() {
    // development aid: how much absorbed-key memory the history left behind (never an oracle)
    let fp = used.verif_fingerprint();
    if let Some(i) = fp.find("mapped_absorbed_keys: [") {
      let seg = &fp[i..];
      let end = seg.find(']').unwrap_or(seg.len());
      let n = seg[..end].matches('(').count();
      eprintln!("ABS {} mappings={} h1={}", n, c.layout.mappings.len(), c.h1.len());
      if c.h1.len() > 300 && std::env::var("TM_DEBUG_ABS").map(|v| v == "2").unwrap_or(false) {
        eprintln!("CASE {} || {} || {}", layout_text(&c.layout), evs_text(&c.h1[c.h1.len() - 60..]), fp);
      }
    }
  }
  let mut fresh = Mapper::for_layout(&c.layout);
  let mut mon2 = Mon::new();
  let mut facts2 = Facts::default();
  for (i, e) in c.h2.iter().enumerate() {
    let ra = used.step(e.clone());
    let rb = fresh.step(e.clone());
    mon2.on_step(&info, e, &rb.events, &rb.repeat, 0, &mut facts2, &mut sink);
    if ra != rb {
      return Err(Violation::new(
        "differs-from-fresh",
        format!("continuation event {} ({}): used mapper answered {}, a fresh mapper answers {}", i, ev_text(e), step_result_text(&ra), step_result_text(&rb)),
      ));
    }
  }
  Ok((h1_interesting, facts2.fired > 0))
}

fn gen_c06_case(src: &mut Src, quick: bool, marathon: bool) -> Option<C06Case> {
  let fam = match src.weighted(&[28, 20, 16, 16, 20]) {
    0 => Family::AbsorbingDense,
    1 => Family::RepeatDense,
    2 => Family::General,
    3 => Family::Tagged,
    _ => Family::Siblings,
  };
  let opts = LayoutOpts { allow_absorbing: true, max_alphabet: 8 };
  let fam = if src.chance(if marathon { 70 } else { 6 }) { Family::Wide } else { fam };
  let mut g = loaded(gen_family(src, fam, &opts))?;
  let crowd = if !marathon && src.chance(4) { add_crowd(src, &mut g) } else { vec![] };
  let hist = HistOpts { max_events: if src.chance(5) { 150 } else if quick { 30 } else { 100 }, max_held: 5, raw_percent: 6, release_all_percent: 0, marathon_taps: if marathon { 300 } else { 0 } };
  let steps = gen_history_mixed(src, &g.layout, &g.alphabet, &hist, &crowd);
  let mut h1: Vec<Event> = Vec::new();
  let mut phys: Vec<KeyCode> = Vec::new();
  for s in steps {
    if let Step::Ev(e) = s {
      match &e {
        Event::Pressed(k) => {
          if !phys.contains(k) {
            phys.push(*k);
          }
        }
        Event::Released(k) => phys.retain(|x| x != k),
      }
      h1.push(e);
    }
  }
  let release_all_cut = src.chance(50);
  if !release_all_cut {
    let mut order = phys.clone();
    src.shuffle(&mut order);
    for k in order {
      h1.push(Event::Released(k));
    }
    phys.clear();
  } else {
    // unseen activity while the mapper is not listening (tablet mode): some physical keys
    // go up, others go down; the mapper sees none of it
    let unseen = src.below(4);
    for _ in 0..unseen {
      let k = src.pick(&g.alphabet);
      if phys.contains(&k) {
        phys.retain(|x| *x != k);
      } else if phys.len() < 5 + crowd.len() {
        phys.push(k);
      }
    }
  }
  // h2 starts from the physical situation at the cut: releases of keys that were held when
  // release_all cut in and presses of keys still physically down are ordinary events of it
  let hist2 = HistOpts { max_events: if quick { 24 } else { 60 }, max_held: 5, raw_percent: 8, release_all_percent: 0, marathon_taps: 0 };
  let hist2 = HistOpts { max_held: hist2.max_held + crowd.len(), ..hist2 };
  let h2 = if marathon && phys.is_empty() {
    gen_typing(src, &g.layout, &g.alphabet, 40, &[]).into_iter().filter_map(|s| match s { Step::Ev(e) => Some(e), _ => None }).collect()
  } else {
    gen_history_from(src, &g.alphabet, &hist2, &phys)
  };
  Some(C06Case { layout: g.layout, alphabet: g.alphabet, h1, release_all_cut, h2, family: g.family })
}

fn gen_history_no_suffix(src: &mut Src, alphabet: &[KeyCode], o: &HistOpts) -> Vec<Step> {
  // gen_history draws its optional release-everything suffix last; C06 builds its own cut, so
  // the suffix (if drawn) is harmless: it only makes h1 end nearer to rest
  gen_history(src, alphabet, o)
}

// a history whose first events may release keys that are "already held" at its start
fn gen_history_from(src: &mut Src, alphabet: &[KeyCode], o: &HistOpts, held0: &[KeyCode]) -> Vec<Event> {
  let n = src.below(o.max_events + 1);
  let mut held: Vec<KeyCode> = held0.to_vec();
  let mut out = Vec::new();
  for _ in 0..n {
    let kind = src.weighted(&[46, 46, 8]);
    let idx = src.u32();
    let not_held: Vec<KeyCode> = alphabet.iter().cloned().filter(|k| !held.contains(k)).collect();
    let pick = |v: &Vec<KeyCode>| v[((idx as u64 * v.len() as u64) >> 32) as usize];
    match kind {
      0 if held.len() < o.max_held && !not_held.is_empty() => {
        let k = pick(&not_held);
        held.push(k);
        out.push(Event::Pressed(k));
      }
      0 | 1 if !held.is_empty() => {
        let k = pick(&held);
        held.retain(|x| *x != k);
        out.push(Event::Released(k));
      }
      1 if !not_held.is_empty() => {
        let k = pick(&not_held);
        held.push(k);
        out.push(Event::Pressed(k));
      }
      _ => {
        let all = alphabet.to_vec();
        let k = pick(&all);
        if idx & 1 == 0 {
          if !held.contains(&k) {
            held.push(k);
          }
          out.push(Event::Pressed(k));
        } else {
          held.retain(|x| *x != k);
          out.push(Event::Released(k));
        }
      }
    }
  }
  out
}

// ---- product sweep: an enumerated bisimulation check against the real code ------------------

struct N1 {
  snap: crate::key_transforms::VerifSnapshot,
  phys: KeySet,
  out: KeySet,
  parent: u32,
  via: Option<Event>,
}

pub struct ProductResult {
  pub states: u64,
  pub transitions: u64,
  pub cuts: u64,
  pub distinct_cut_states: u64,
  pub pair_states: u64,
  pub exhausted: bool,
  pub failure: Option<(C06Case, Violation)>,
}

pub fn product_sweep(layout: &Layout, alphabet: &[KeyCode], max_held: usize, cap: usize, family: &str, stats: &mut Stats) -> ProductResult {
  let mut mapper = Mapper::for_layout(layout);
  let fresh_snap = mapper.verif_snapshot();
  let fresh_fp = mapper.verif_fingerprint();
  let layout_hash = hash64(&layout_text(layout));
  let mut nodes: Vec<N1> = vec![N1 { snap: mapper.verif_snapshot(), phys: KeySet::new(), out: KeySet::new(), parent: u32::MAX, via: None }];
  let mut seen: HashSet<(u64, u64)> = HashSet::new();
  seen.insert((hash64(&(&fresh_fp, &KeySet::new(), &KeySet::new())), hash64(&(1u8, &fresh_fp))));
  let mut queue: VecDeque<u32> = VecDeque::new();
  queue.push_back(0);
  let mut transitions = 0u64;
  let mut exhausted = true;
  // cut states: fingerprint -> (node index, via release_all?)
  let mut cuts: HashMap<String, (u32, bool)> = HashMap::new();
  let mut n_cuts = 0u64;
  let path_to = |nodes: &Vec<N1>, mut cur: u32| -> Vec<Event> {
    let mut p = Vec::new();
    while cur != u32::MAX {
      if let Some(e) = &nodes[cur as usize].via {
        p.push(e.clone());
      }
      cur = nodes[cur as usize].parent;
    }
    p.reverse();
    p
  };
  let mk_case = |h1: Vec<Event>, ra: bool, h2: Vec<Event>| C06Case { layout: layout.clone(), alphabet: alphabet.to_vec(), h1, release_all_cut: ra, h2, family: format!("product-sweep:{}", family) };
  while let Some(ni) = queue.pop_front() {
    // cuts at this node
    {
      let n = &nodes[ni as usize];
      if n.phys.is_empty() {
        n_cuts += 1;
        if !n.out.is_empty() {
          let v = Violation::new("held-after-reset", format!("all physical keys released but the output holds {:?}", n.out.names()));
          return ProductResult { states: nodes.len() as u64, transitions, cuts: n_cuts, distinct_cut_states: cuts.len() as u64, pair_states: 0, exhausted: false, failure: Some((mk_case(path_to(&nodes, ni), false, vec![]), v)) };
        }
        mapper.verif_restore(&n.snap);
        let fp = mapper.verif_fingerprint();
        cuts.entry(fp).or_insert((ni, false));
      }
      mapper.verif_restore(&n.snap);
      let evs = mapper.release_all();
      transitions += 1;
      n_cuts += 1;
      let mut o = n.out.clone();
      fold_events(&mut o, &evs);
      if !o.is_empty() {
        let v = Violation::new("held-after-reset", format!("after release_all the output holds {:?}", o.names()));
        return ProductResult { states: nodes.len() as u64, transitions, cuts: n_cuts, distinct_cut_states: cuts.len() as u64, pair_states: 0, exhausted: false, failure: Some((mk_case(path_to(&nodes, ni), true, vec![]), v)) };
      }
      let fp = mapper.verif_fingerprint();
      if !cuts.contains_key(&fp) {
        // keep the snapshot by re-deriving it later from (node, release_all)
        cuts.insert(fp, (ni, true));
      }
    }
    let phys = nodes[ni as usize].phys.clone();
    for k in alphabet {
      for press in [true, false] {
        if press && !phys.contains(*k) && phys.len() >= max_held {
          continue;
        }
        let e = if press { Event::Pressed(*k) } else { Event::Released(*k) };
        mapper.verif_restore(&nodes[ni as usize].snap);
        let r = mapper.step(e.clone());
        transitions += 1;
        let mut p2 = phys.clone();
        if press {
          p2.insert(*k);
        } else {
          p2.remove(*k);
        }
        let mut o2 = nodes[ni as usize].out.clone();
        fold_events(&mut o2, &r.events);
        let fp = mapper.verif_fingerprint();
        let key = (hash64(&(&fp, &p2, &o2)), hash64(&(1u8, &fp, &p2)));
        if seen.insert(key) {
          if nodes.len() >= cap {
            exhausted = false;
            continue;
          }
          stats.fingerprints.insert(hash64(&(layout_hash, &fp)));
          nodes.push(N1 { snap: mapper.verif_snapshot(), phys: p2, out: o2, parent: ni, via: Some(e) });
          queue.push_back((nodes.len() - 1) as u32);
        }
      }
    }
  }
  // product exploration from every distinct cut state that differs from a fresh mapper
  let mut pair_states = 0u64;
  let mut cut_list: Vec<(&String, &(u32, bool))> = cuts.iter().collect();
  cut_list.sort();
  for (fp, (ni, via_ra)) in cut_list {
    if *fp == fresh_fp {
      continue;
    }
    mapper.verif_restore(&nodes[*ni as usize].snap);
    if *via_ra {
      mapper.release_all();
    }
    let start_a = mapper.verif_snapshot();
    struct PN {
      a: crate::key_transforms::VerifSnapshot,
      b: crate::key_transforms::VerifSnapshot,
      held: KeySet,
      parent: u32,
      via: Option<Event>,
    }
    let mut fresh = Mapper::for_layout(layout);
    let mut pn: Vec<PN> = vec![PN { a: start_a, b: fresh.verif_snapshot(), held: KeySet::new(), parent: u32::MAX, via: None }];
    let mut pseen: HashSet<(u64, u64)> = HashSet::new();
    pseen.insert((hash64(&(fp, &fresh_fp)), 0));
    let mut pq: VecDeque<u32> = VecDeque::new();
    pq.push_back(0);
    while let Some(pi) = pq.pop_front() {
      let held = pn[pi as usize].held.clone();
      for k in alphabet {
        for press in [true, false] {
          if press && !held.contains(*k) && held.len() >= max_held {
            continue;
          }
          let e = if press { Event::Pressed(*k) } else { Event::Released(*k) };
          mapper.verif_restore(&pn[pi as usize].a);
          fresh.verif_restore(&pn[pi as usize].b);
          let ra = mapper.step(e.clone());
          let rb = fresh.step(e.clone());
          transitions += 1;
          if ra != rb {
            let mut h2 = vec![e.clone()];
            let mut cur = pi;
            while cur != u32::MAX {
              if let Some(x) = &pn[cur as usize].via {
                h2.push(x.clone());
              }
              cur = pn[cur as usize].parent;
            }
            h2.reverse();
            let v = Violation::new("differs-from-fresh", format!("continuation event {}: used mapper answered {}, a fresh mapper answers {}", ev_text(&e), step_result_text(&ra), step_result_text(&rb)));
            return ProductResult { states: nodes.len() as u64, transitions, cuts: n_cuts, distinct_cut_states: cuts.len() as u64, pair_states, exhausted: false, failure: Some((mk_case(path_to(&nodes, *ni), *via_ra, h2), v)) };
          }
          let fa = mapper.verif_fingerprint();
          let fb = fresh.verif_fingerprint();
          if fa == fb {
            // identical state from here on: identical behaviour, nothing left to compare
            continue;
          }
          let mut h2 = held.clone();
          if press {
            h2.insert(*k);
          } else {
            h2.remove(*k);
          }
          let key = (hash64(&(&fa, &fb)), hash64(&(2u8, &fa, &fb, &h2)));
          if pseen.insert(key) {
            if pn.len() >= cap {
              exhausted = false;
              continue;
            }
            pn.push(PN { a: mapper.verif_snapshot(), b: fresh.verif_snapshot(), held: h2, parent: pi, via: Some(e) });
            pq.push_back((pn.len() - 1) as u32);
          }
        }
      }
    }
    pair_states += pn.len() as u64;
    stats.nontrivial_case(hash64(&(layout_hash, fp)));
  }
  stats.states += nodes.len() as u64 + pair_states;
  stats.transitions += transitions;
  if exhausted {
    stats.exhaustive_slices += 1;
  } else {
    stats.capped_slices += 1;
  }
  ProductResult { states: nodes.len() as u64, transitions, cuts: n_cuts, distinct_cut_states: cuts.len() as u64, pair_states, exhausted, failure: None }
}

fn minimise_c06(case: &C06Case, kind: &str) -> C06Case {
  let fails = |c: &C06Case| -> bool {
    // a rest cut must stay a rest cut
    if !c.release_all_cut {
      let mut phys = KeySet::new();
      for e in &c.h1 {
        match e {
          Event::Pressed(k) => {
            phys.insert(*k);
          }
          Event::Released(k) => {
            phys.remove(*k);
          }
        }
      }
      if !phys.is_empty() {
        return false;
      }
    }
    match run_guarded(|| run_c06_case(c).map(|_| ())) {
      Err(v) => v.kind == kind,
      Ok(()) => false,
    }
  };
  let mut best = case.clone();
  if !fails(&best) {
    return best;
  }
  let mut changed = true;
  let mut rounds = 0;
  let dl = Deadline::after_secs(60);
  while changed && rounds < 30 && !dl.passed() {
    changed = false;
    rounds += 1;
    let mut i = best.h2.len();
    while i > 0 {
      i -= 1;
      let mut c = best.clone();
      c.h2.remove(i);
      if fails(&c) {
        best = c;
        changed = true;
      }
    }
    let mut i = best.h1.len();
    while i > 0 {
      i -= 1;
      let mut c = best.clone();
      c.h1.remove(i);
      if fails(&c) {
        best = c;
        changed = true;
        continue;
      }
      // remove a press together with its matching later release
      if let Event::Pressed(k) = best.h1[i].clone() {
        if let Some(j) = best.h1[i + 1..].iter().position(|e| *e == Event::Released(k)) {
          let mut c = best.clone();
          c.h1.remove(i + 1 + j);
          c.h1.remove(i);
          if fails(&c) {
            best = c;
            changed = true;
          }
        }
      }
    }
    let mut i = best.layout.mappings.len();
    while i > 0 {
      i -= 1;
      let mut c = best.clone();
      c.layout.mappings.remove(i);
      if fails(&c) {
        best = c;
        changed = true;
      }
    }
  }
  best
}

pub fn check(cfg: &RunCfg, _findings: &Findings) -> Report {
  let mut rep = Report::new(
    "C06",
    "exploration",
    "case = (layout, h1, cut = release of every physical key | release_all with unseen key activity, h2); oracle = StepResult of the used mapper vs a fresh mapper on every event of h2, and an empty output set at the cut; non-trivial = h1 fired an absorbing or no-repeat mapping and h2 fires at least one mapping; product sweep: every reached rest / release_all state whose H1 fingerprint differs from a fresh mapper's counts as one distinct non-trivial case and is stepped in lock-step with a fresh mapper over all events to a fixpoint",
  );
  let quick = cfg.tier == Tier::Quick;
  // regressions
  let reg_dir = format!("{}/regressions/C06", crate::findings::verif_dir());
  if let Ok(rd) = std::fs::read_dir(&reg_dir) {
    let mut files: Vec<_> = rd.filter_map(|e| e.ok()).map(|e| e.path()).filter(|p| p.extension().map(|x| x == "json").unwrap_or(false)).collect();
    files.sort();
    for f in files {
      if let Ok(v) = serde_json::from_str::<Value>(&std::fs::read_to_string(&f).unwrap_or_default()) {
        if let Ok(c) = C06Case::from_json(v.get("case").unwrap_or(&v)) {
          rep.stats.evaluations += 1;
          rep.stats.count("regression-replays", 1);
          if let Err(v) = run_guarded(|| run_c06_case(&c).map(|_| ())) {
            rep.violations.push((v, f.to_string_lossy().to_string()));
            return rep;
          }
        }
      }
    }
  }
  // product sweeps of generated layouts
  let cap = if quick { 30_000 } else { 150_000 };
  let (st, fail) = run_prop_iters(
    cfg,
    "C06-product-sweep",
    16,
    if quick { 2_000 } else { 10_000 },
    48,
    300,
    150,
    |src: &mut Src| {
      let fam = match src.weighted(&[32, 18, 10, 10, 30]) {
        0 => Family::AbsorbingDense,
        1 => Family::RepeatDense,
        2 => Family::General,
        3 => Family::Tagged,
        _ => Family::Siblings,
      };
      // quick: five keys, one sweep in four six (thorough: always six)
      let alpha = if quick && !src.chance(25) { 5 } else { 6 };
      loaded(gen_family(src, fam, &LayoutOpts { allow_absorbing: true, max_alphabet: alpha }))
    },
    |g: &Option<GenLayout>, stats: &mut Stats| {
      let g = match g {
        Some(g) => g,
        None => {
          stats.discards += 1;
          return Ok(());
        }
      };
      stats.label(&format!("sweep-family:{}", g.family));
      let r = product_sweep(&g.layout, &g.alphabet, 4, cap, &g.family, stats);
      stats.count("cuts-checked", r.cuts);
      stats.count("distinct-cut-states", r.distinct_cut_states);
      stats.count("pair-states", r.pair_states);
      if stats.want_sample() {
        stats.samples.push(json!({"product_sweep_of": layout_text(&g.layout), "alphabet": g.alphabet.iter().map(|k| key_name(*k)).collect::<Vec<_>>(), "states": r.states, "cuts": r.cuts, "distinct_cut_states": r.distinct_cut_states, "pair_states": r.pair_states, "exhausted": r.exhausted}));
      }
      match r.failure {
        None => Ok(()),
        Some((_c, v)) => Err(v),
      }
    },
  );
  rep.stats.merge(st);
  if let Some(f) = fail {
    if let Some(g) = f.case {
      let mut scratch = Stats::new();
      let r = product_sweep(&g.layout, &g.alphabet, 4, cap, &g.family, &mut scratch);
      if let Some((c, v)) = r.failure {
        let min = minimise_c06(&c, &v.kind);
        let v2 = run_guarded(|| run_c06_case(&min).map(|_| ())).err().unwrap_or(v);
        let path = write_replay("C06", &v2, &min.to_json());
        rep.violations.push((v2, path));
        return rep;
      }
    }
    let path = write_replay("C06", &f.violation, &json!({"note": "product sweep failure that did not reproduce"}));
    rep.violations.push((f.violation, path));
    return rep;
  }
  // catalogue product sweeps
  let cat = catalogue();
  let cat_ref = &cat;
  let (st, fail) = run_prop_iters(
    cfg,
    "C06-catalogue-sweep",
    16,
    if quick { 4 } else { 40 },
    16,
    48,
    40,
    |src: &mut Src| {
      let e = &cat_ref[src.below(cat_ref.len())];
      let alphabet = catalogue_alphabet(src, &e.layout, 3, 2, 1);
      GenLayout { layout: e.layout.clone(), alphabet, family: e.name.clone() }
    },
    |g: &GenLayout, stats: &mut Stats| {
      stats.label(&format!("catalogue-sweep:{}", g.family));
      let r = product_sweep(&g.layout, &g.alphabet, 4, cap, &g.family, stats);
      stats.count("cuts-checked", r.cuts);
      stats.count("pair-states", r.pair_states);
      match r.failure {
        None => Ok(()),
        Some((_c, v)) => Err(v),
      }
    },
  );
  rep.stats.merge(st);
  if let Some(f) = fail {
    let g = f.case;
    let mut scratch = Stats::new();
    let r = product_sweep(&g.layout, &g.alphabet, 4, cap, &g.family, &mut scratch);
    if let Some((c, v)) = r.failure {
      let min = minimise_c06(&c, &v.kind);
      let v2 = run_guarded(|| run_c06_case(&min).map(|_| ())).err().unwrap_or(v);
      let path = write_replay("C06", &v2, &min.to_json());
      rep.violations.push((v2, path));
      return rep;
    }
  }
  // random
  let (st, fail) = run_prop(
    cfg,
    "C06-random",
    16,
    if quick { 20_000 } else { 200_000 },
    64,
    if quick { 1000 } else { 1200 },
    |src: &mut Src| gen_c06_case(src, quick, false),
    |c: &Option<C06Case>, stats: &mut Stats| {
      let c = match c {
        Some(c) => c,
        None => {
          stats.discards += 1;
          return Ok(());
        }
      };
      let (a, b) = run_c06_case(c)?;
      stats.label(&format!("family:{}", c.family));
      stats.label(if c.release_all_cut { "cut:release_all" } else { "cut:rest" });
      if a {
        stats.label("h1-fired-absorbing-or-norepeat");
      }
      if b {
        stats.label("h2-fires-a-mapping");
      }
      if a && b {
        stats.label("non-trivial");
        stats.nontrivial_case(hash64(&(layout_text(&c.layout), evs_text(&c.h1), c.release_all_cut, evs_text(&c.h2))));
        if stats.want_nontrivial_sample() && c.h1.len() + c.h2.len() <= 30 {
          stats.nontrivial_samples.push(c.to_json());
        }
      } else if stats.want_sample() && c.h1.len() + c.h2.len() <= 16 {
        stats.samples.push(c.to_json());
      }
      Ok(())
    },
  );
  rep.stats.merge(st);
  if let Some(f) = fail {
    if let Some(c) = f.case {
      let min = minimise_c06(&c, &f.violation.kind);
      let v2 = run_guarded(|| run_c06_case(&min).map(|_| ())).err().unwrap_or(f.violation);
      let path = write_replay("C06", &v2, &min.to_json());
      rep.violations.push((v2, path));
    }
    return rep;
  }
  // marathons: few, very long typing runs before the cut
  let (st, fail) = run_prop(
    cfg,
    "C06-marathon",
    16,
    if quick { 400 } else { 4_000 },
    4_000,
    9_000,
    |src: &mut Src| gen_c06_case(src, quick, true),
    |c: &Option<C06Case>, stats: &mut Stats| {
      let c = match c {
        Some(c) => c,
        None => {
          stats.discards += 1;
          return Ok(());
        }
      };
      let (a, b) = run_c06_case(c)?;
      stats.label("marathon");
      stats.count("marathon-events", (c.h1.len() + c.h2.len()) as u64);
      if a && b {
        stats.nontrivial_case(hash64(&(layout_text(&c.layout), evs_text(&c.h1), c.release_all_cut, evs_text(&c.h2))));
      }
      Ok(())
    },
  );
  rep.stats.merge(st);
  if let Some(f) = fail {
    if let Some(c) = f.case {
      let min = minimise_c06(&c, &f.violation.kind);
      let v2 = run_guarded(|| run_c06_case(&min).map(|_| ())).err().unwrap_or(f.violation);
      let path = write_replay("C06", &v2, &min.to_json());
      rep.violations.push((v2, path));
    }
    return rep;
  }
  rep.assumptions = vec![
    "only StepResult (events and repeat request) is compared; a stale but harmless internal field is not a violation".to_string(),
    "two mapper states with the same Debug rendering behave identically (used only to stop exploring a pair once both sides have converged and to de-duplicate)".to_string(),
    "product sweeps bound the keys held at once (4) over the swept alphabet; ill-formed events included".to_string(),
  ];
  rep
}

pub fn replay(file: &str) -> Result<(), Violation> {
  let text = std::fs::read_to_string(file).map_err(|e| Violation::new("io", format!("cannot read {}: {}", file, e)))?;
  let v: Value = serde_json::from_str(&text).map_err(|e| Violation::new("io", e.to_string()))?;
  let c = C06Case::from_json(v.get("case").unwrap_or(&v)).map_err(|e| Violation::new("io", e))?;
  run_guarded(|| run_c06_case(&c).map(|_| ()))
}
