// Entry points for the libFuzzer targets in /verif/fuzz (thorough tier) and the replay path
// for their artifacts. Bytes are decoded into a choice tape (two bytes per choice) and then
// into the same structured cases the proptest engine uses; the semantic oracles are the same
// monitors. The property is selected with the environment variable TM_FZ_PROP (e.g. "C08").

use crate::engine::{Stats, Violation};
use crate::findings::Findings;
use crate::history::HistOpts;
use crate::mon::p;
use crate::tape::{tape_from_bytes, Src};
use serde_json::{json, Value};
use std::sync::OnceLock;

fn selected_prop() -> u32 {
  static P: OnceLock<u32> = OnceLock::new();
  *P.get_or_init(|| std::env::var("TM_FZ_PROP").ok().and_then(|s| s.trim_start_matches('C').parse().ok()).unwrap_or(1))
}

fn findings() -> &'static Findings {
  static F: OnceLock<Findings> = OnceLock::new();
  F.get_or_init(Findings::load)
}

fn quiet() {
  static Q: OnceLock<()> = OnceLock::new();
  Q.get_or_init(|| {
    // keep libFuzzer's own crash reporting; silence the panics that are caught and tolerated
    if std::env::var("TM_FZ_VERBOSE").is_err() {
      let default = std::panic::take_hook();
      std::panic::set_hook(Box::new(move |info| {
        let msg = info.to_string();
        if msg.contains("TMVERIF-VIOLATION") {
          default(info);
        }
      }));
    }
  });
}

// (property number, violation, case as JSON) for a mapper-property input
pub fn decode_mapper(data: &[u8], id: u32) -> Option<(Violation, Value)> {
  let tape = tape_from_bytes(data);
  let mut src = Src::new(&tape);
  let plan = crate::props_mapper::plan_for(id);
  let hist = HistOpts { max_events: 120, max_held: 5, raw_percent: 6, release_all_percent: if matches!(id, 1 | 2 | 19) { 3 } else { 1 }, marathon_taps: 0 };
  let case = crate::props_mapper::gen_random_case(&mut src, &plan, &hist)?;
  if !crate::props_mapper::case_relevant(&plan, &case.layout) {
    return None;
  }
  let mut st = Stats::new();
  match crate::engine::run_guarded(|| crate::props_mapper::run_mapper_case(&case, p(id), &mut st, findings()).map(|_| ()).map_err(|(_, v)| v)) {
    Ok(()) => None,
    Err(v) => Some((v, case.to_json())),
  }
}

pub fn decode_loop(data: &[u8], which: u32) -> Option<(Violation, Value)> {
  let tape = tape_from_bytes(data);
  let mut src = Src::new(&tape);
  let mut case = crate::props_loop::gen_loop_case(&mut src, which, false)?;
  // never sleep inside a fuzz target
  case.script.real_sleep = false;
  let mut facts = crate::props_loop::LoopFacts::default();
  match crate::engine::run_guarded(|| crate::props_loop::run_loop_case(which, &case, &mut facts)) {
    Ok(()) => None,
    Err(v) => {
      if findings().is_known(&format!("C{:02}", which), &v).is_some() {
        None
      } else {
        Some((v, case.to_json()))
      }
    }
  }
}

pub fn decode_loader(data: &[u8]) -> Option<(Violation, Value)> {
  if data.is_empty() {
    return None;
  }
  // first byte: raw bytes (the rest is the file) or a structure-aware case decoded from a tape
  let case = if data[0] < 128 {
    crate::props_c14::C14Case { origin: "fuzz:raw".into(), bytes: data[1..].to_vec(), history_tape: data.iter().rev().take(64).map(|b| (*b as u32) << 24).collect() }
  } else {
    let tape = tape_from_bytes(&data[1..]);
    let mut src = Src::new(&tape);
    crate::props_c14::gen_case(&mut src)
  };
  let mut facts = crate::props_c14::C14Facts::default();
  match crate::props_c14::run_case(&case, &mut facts) {
    Ok(()) => None,
    Err(v) => {
      if v.kind == "io" || findings().is_known("C14", &v).is_some() {
        None
      } else {
        Some((v, case.to_json()))
      }
    }
  }
}

pub fn decode(target: &str, data: &[u8], prop: u32) -> Option<(Violation, Value)> {
  match target {
    "fz_mapper" => decode_mapper(data, prop),
    "fz_loop" => decode_loop(data, prop),
    "fz_loader" => decode_loader(data),
    _ => None,
  }
}

fn report(v: Violation, case: Value) -> ! {
  panic!("TMVERIF-VIOLATION {}: {} | case: {}", v.kind, v.detail, case);
}

pub fn fz_mapper(data: &[u8]) {
  quiet();
  if let Some((v, c)) = decode_mapper(data, selected_prop()) {
    report(v, c);
  }
}

pub fn fz_loop(data: &[u8]) {
  quiet();
  let which = match selected_prop() {
    11 => 11,
    12 => 12,
    _ => 10,
  };
  if let Some((v, c)) = decode_loop(data, which) {
    report(v, c);
  }
}

pub fn fz_loader(data: &[u8]) {
  quiet();
  if let Some((v, c)) = decode_loader(data) {
    report(v, c);
  }
}

// seed inputs for a fresh campaign corpus
pub fn seed_corpus(target: &str, seed: u64) -> Vec<Vec<u8>> {
  let mut out: Vec<Vec<u8>> = Vec::new();
  match target {
    "fz_loader" => {
      let mut names: Vec<&String> = crate::default_fancy_layouts::DEFAULT_LAYOUTS.keys().collect();
      names.sort();
      for n in names {
        let mut v = vec![0u8];
        v.extend_from_slice(crate::default_fancy_layouts::DEFAULT_LAYOUTS.get(n).unwrap().as_bytes());
        out.push(v);
      }
      for b in crate::layouts::readme_json_blocks() {
        let mut v = vec![0u8];
        v.extend_from_slice(b.as_bytes());
        out.push(v);
      }
      for i in 0..16u64 {
        let mut v = vec![200u8];
        v.extend(crate::tape::tape_from_seed(seed, "fz_loader", i, 200).iter().flat_map(|x| vec![(x >> 24) as u8, (x >> 16) as u8]));
        out.push(v);
      }
    }
    _ => {
      for i in 0..32u64 {
        out.push(crate::tape::tape_from_seed(seed, target, i, 300).iter().flat_map(|x| vec![(x >> 24) as u8, (x >> 16) as u8]).collect());
      }
    }
  }
  out
}
