// Key helpers shared by generators and oracles. Nothing here calls into the mapper.

use crate::keys::{Event, KeyCode, Layout, Mapping, Repeat};
use num_traits::FromPrimitive;
use KeyCode::*;

pub const STD_MODIFIERS: [KeyCode; 8] =
  [LEFTSHIFT, RIGHTSHIFT, LEFTCTRL, RIGHTCTRL, LEFTALT, RIGHTALT, LEFTMETA, RIGHTMETA];
pub const ORDINARY: [KeyCode; 8] = [A, B, C, Q, W, X, Y, Z];
pub const CONSUMED_STYLE: [KeyCode; 3] = [CAPSLOCK, TAB, GRAVE];
pub const TAGS: [KeyCode; 12] = [F13, F14, F15, F16, F17, F18, F19, F20, F21, F22, F23, F24];
pub const FOREIGN_NONMOD: [KeyCode; 6] = [KP1, KP2, KP3, HOME, END, INSERT];
pub const FOREIGN_MOD: [KeyCode; 8] =
  [RIGHTMETA, RIGHTCTRL, RIGHTALT, LEFTMETA, LEFTALT, RIGHTSHIFT, LEFTCTRL, LEFTSHIFT];

// The eight standard modifiers: the property texts' "modifier" (written independently of the
// repository's is_action_key).
pub fn is_modifier(k: KeyCode) -> bool {
  matches!(k, LEFTSHIFT | RIGHTSHIFT | LEFTCTRL | RIGHTCTRL | LEFTALT | RIGHTALT | LEFTMETA | RIGHTMETA)
}

pub fn all_key_codes() -> Vec<KeyCode> {
  all_codes().clone()
}

pub fn all_codes() -> &'static Vec<KeyCode> {
  static ALL: std::sync::OnceLock<Vec<KeyCode>> = std::sync::OnceLock::new();
  ALL.get_or_init(|| {
    let mut out = Vec::new();
    for i in 0u32..=0xffff {
      if let Some(k) = <KeyCode as FromPrimitive>::from_u32(i) {
        out.push(k);
      }
    }
    out
  })
}

pub fn nonmod_codes() -> &'static Vec<KeyCode> {
  static NM: std::sync::OnceLock<Vec<KeyCode>> = std::sync::OnceLock::new();
  NM.get_or_init(|| all_codes().iter().cloned().filter(|k| !is_modifier(*k)).collect())
}

pub fn code_of(k: KeyCode) -> u32 {
  k as i32 as u32
}

pub fn key_with_code(c: u32) -> Option<KeyCode> {
  <KeyCode as FromPrimitive>::from_u32(c)
}

pub fn key_name(k: KeyCode) -> String {
  // the name serde writes (digits are renamed)
  match serde_json::to_value(&k).unwrap() {
    serde_json::Value::String(s) => s,
    other => other.to_string(),
  }
}

pub fn key_from_name(s: &str) -> Option<KeyCode> {
  serde_json::from_value(serde_json::Value::String(s.to_string())).ok()
}

// ---- small ordered key sets ----------------------------------------------------------------

#[derive(Clone, Debug, PartialEq, Eq, Hash, Default, PartialOrd, Ord)]
pub struct KeySet(pub Vec<KeyCode>);

impl KeySet {
  pub fn new() -> KeySet {
    KeySet(Vec::new())
  }
  pub fn from_slice(ks: &[KeyCode]) -> KeySet {
    let mut s = KeySet::new();
    for k in ks {
      s.insert(*k);
    }
    s
  }
  #[inline]
  pub fn contains(&self, k: KeyCode) -> bool {
    self.0.binary_search(&k).is_ok()
  }
  pub fn insert(&mut self, k: KeyCode) -> bool {
    match self.0.binary_search(&k) {
      Ok(_) => false,
      Err(i) => {
        self.0.insert(i, k);
        true
      }
    }
  }
  pub fn remove(&mut self, k: KeyCode) -> bool {
    match self.0.binary_search(&k) {
      Ok(i) => {
        self.0.remove(i);
        true
      }
      Err(_) => false,
    }
  }
  pub fn len(&self) -> usize {
    self.0.len()
  }
  pub fn is_empty(&self) -> bool {
    self.0.is_empty()
  }
  pub fn iter(&self) -> std::slice::Iter<'_, KeyCode> {
    self.0.iter()
  }
  pub fn is_subset(&self, other: &KeySet) -> bool {
    self.0.iter().all(|k| other.contains(*k))
  }
  pub fn contains_all(&self, ks: &[KeyCode]) -> bool {
    ks.iter().all(|k| self.contains(*k))
  }
  pub fn clear(&mut self) {
    self.0.clear();
  }
  pub fn names(&self) -> Vec<String> {
    self.0.iter().map(|k| key_name(*k)).collect()
  }
}

// ---- events in text form ("+A", "-A") --------------------------------------------------------

pub fn ev_text(e: &Event) -> String {
  match e {
    Event::Pressed(k) => format!("+{}", key_name(*k)),
    Event::Released(k) => format!("-{}", key_name(*k)),
  }
}

pub fn evs_text(es: &[Event]) -> String {
  es.iter().map(ev_text).collect::<Vec<_>>().join(" ")
}

pub fn ev_from_text(s: &str) -> Option<Event> {
  if let Some(r) = s.strip_prefix('+') {
    key_from_name(r).map(Event::Pressed)
  } else if let Some(r) = s.strip_prefix('-') {
    key_from_name(r).map(Event::Released)
  } else {
    None
  }
}

pub fn ev_key(e: &Event) -> KeyCode {
  match e {
    Event::Pressed(k) => *k,
    Event::Released(k) => *k,
  }
}

pub fn fold_events(set: &mut KeySet, es: &[Event]) {
  for e in es {
    match e {
      Event::Pressed(k) => {
        set.insert(*k);
      }
      Event::Released(k) => {
        set.remove(*k);
      }
    }
  }
}

// ---- layout helpers ------------------------------------------------------------------------

pub fn mapping_text(m: &Mapping) -> String {
  let f: Vec<String> = m.from.iter().map(|k| key_name(*k)).collect();
  let t: Vec<String> = m.to.iter().map(|k| key_name(*k)).collect();
  let mut s = format!("[{}]->[{}]", f.join(","), t.join(","));
  match &m.repeat {
    Repeat::Normal => {}
    Repeat::Disabled => s.push_str(" norepeat"),
    Repeat::Special { keys, delay_ms, interval_ms } => {
      let ks: Vec<String> = keys.iter().map(|k| key_name(*k)).collect();
      s.push_str(&format!(" special([{}],{},{})", ks.join(","), delay_ms, interval_ms));
    }
  }
  if !m.absorbing.is_empty() {
    let a: Vec<String> = m.absorbing.iter().map(|k| key_name(*k)).collect();
    s.push_str(&format!(" absorbing[{}]", a.join(",")));
  }
  s
}

pub fn layout_text(l: &Layout) -> String {
  l.mappings.iter().map(mapping_text).collect::<Vec<_>>().join("; ")
}

pub fn layout_keys(l: &Layout) -> KeySet {
  let mut s = KeySet::new();
  for m in &l.mappings {
    for k in m.from.iter().chain(m.to.iter()).chain(m.absorbing.iter()) {
      s.insert(*k);
    }
    if let Repeat::Special { keys, .. } = &m.repeat {
      for k in keys {
        s.insert(*k);
      }
    }
  }
  s
}

pub fn trigger_keys(l: &Layout) -> KeySet {
  let mut s = KeySet::new();
  for m in &l.mappings {
    for k in &m.from {
      s.insert(*k);
    }
  }
  s
}

pub fn has_absorbing(l: &Layout) -> bool {
  l.mappings.iter().any(|m| !m.absorbing.is_empty())
}

pub fn is_norepeat(m: &Mapping) -> bool {
  !matches!(m.repeat, Repeat::Normal)
}
