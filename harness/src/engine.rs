// proptest-driven engine: fixed shards, seeds derived from VERIF_SEED, tape strategy,
// integrated shrinking, statistics that stop counting at the first failure.

use crate::tape::{seed32, Src};
use proptest::collection::vec as pvec;
use proptest::prelude::any;
use proptest::test_runner::{Config, RngAlgorithm, TestCaseError, TestError, TestRng, TestRunner};
use serde_json::Value;
use std::cell::{Cell, RefCell};
use std::collections::hash_map::DefaultHasher;
use std::collections::{BTreeMap, HashSet};
use std::hash::{Hash, Hasher};

#[derive(Clone, Copy, PartialEq, Eq, Debug)]
pub enum Tier {
  Quick,
  Thorough,
}

impl Tier {
  pub fn name(&self) -> &'static str {
    match self {
      Tier::Quick => "quick",
      Tier::Thorough => "thorough",
    }
  }
}

#[derive(Clone, Debug)]
pub struct RunCfg {
  pub seed: u64,
  pub tier: Tier,
  pub threads: usize,
}

#[derive(Clone, Debug)]
pub struct Violation {
  pub kind: String,   // short machine-readable kind, e.g. "stuck-key"
  pub sig: String,    // narrow signature used to match known findings ("" = none)
  pub detail: String, // human-readable: what was observed, what was expected
}

impl Violation {
  pub fn new(kind: &str, detail: String) -> Violation {
    Violation { kind: kind.to_string(), sig: String::new(), detail }
  }
  pub fn with_sig(kind: &str, sig: &str, detail: String) -> Violation {
    Violation { kind: kind.to_string(), sig: sig.to_string(), detail }
  }
}

pub const MAX_SAMPLES: usize = 24;

#[derive(Clone, Debug, Default)]
pub struct Stats {
  pub evaluations: u64,
  pub nontrivial: HashSet<u64>,
  // non-trivial transitions per swept slice (distinct by construction inside one sweep; keyed by
  // the slice so that a slice swept twice counts once)
  pub nontrivial_slices: std::collections::HashMap<u64, u64>,
  pub labels: BTreeMap<String, u64>,
  pub samples: Vec<Value>,
  pub nontrivial_samples: Vec<Value>,
  pub discards: u64,
  pub known_hits: BTreeMap<String, u64>,
  pub states: u64,
  pub transitions: u64,
  pub fingerprints: HashSet<u64>,
  pub counters: BTreeMap<String, u64>,
  pub exhaustive_slices: u64,
  pub capped_slices: u64,
}

pub fn hash64<T: Hash>(t: &T) -> u64 {
  let mut h = DefaultHasher::new();
  t.hash(&mut h);
  h.finish()
}

impl Stats {
  pub fn new() -> Stats {
    Stats::default()
  }
  pub fn label(&mut self, l: &str) {
    *self.labels.entry(l.to_string()).or_insert(0) += 1;
  }
  pub fn count(&mut self, c: &str, n: u64) {
    *self.counters.entry(c.to_string()).or_insert(0) += n;
  }
  pub fn known(&mut self, id: &str) {
    *self.known_hits.entry(id.to_string()).or_insert(0) += 1;
  }
  pub fn nontrivial_case(&mut self, canonical_hash: u64) {
    self.nontrivial.insert(canonical_hash);
  }
  pub fn distinct_nontrivial(&self) -> u64 {
    self.nontrivial.len() as u64 + self.nontrivial_slices.values().sum::<u64>()
  }
  pub fn want_sample(&self) -> bool {
    self.samples.len() < MAX_SAMPLES
  }
  pub fn want_nontrivial_sample(&self) -> bool {
    self.nontrivial_samples.len() < MAX_SAMPLES
  }
  pub fn merge(&mut self, other: Stats) {
    self.evaluations += other.evaluations;
    self.nontrivial.extend(other.nontrivial);
    for (k, v) in other.nontrivial_slices {
      let e = self.nontrivial_slices.entry(k).or_insert(0);
      *e = (*e).max(v);
    }
    for (k, v) in other.labels {
      *self.labels.entry(k).or_insert(0) += v;
    }
    for (k, v) in other.counters {
      *self.counters.entry(k).or_insert(0) += v;
    }
    for (k, v) in other.known_hits {
      *self.known_hits.entry(k).or_insert(0) += v;
    }
    for s in other.samples {
      if self.samples.len() < MAX_SAMPLES {
        self.samples.push(s);
      }
    }
    for s in other.nontrivial_samples {
      if self.nontrivial_samples.len() < MAX_SAMPLES {
        self.nontrivial_samples.push(s);
      }
    }
    self.discards += other.discards;
    self.states += other.states;
    self.transitions += other.transitions;
    self.fingerprints.extend(other.fingerprints);
    self.exhaustive_slices += other.exhaustive_slices;
    self.capped_slices += other.capped_slices;
  }
}

pub struct Failure<C> {
  pub case: C,
  pub violation: Violation,
  pub shard: usize,
}

// Runs `shards` independent proptest runners (seeded from cfg.seed, label and shard index) on
// a thread pool. `gen` decodes a tape into a case, `test` decides it. The first failing shard
// (lowest shard index) wins, so the outcome does not depend on thread timing.
pub fn run_prop<C, G, T>(
  cfg: &RunCfg,
  label: &str,
  shards: usize,
  cases_per_shard: u32,
  tape_min: usize,
  tape_max: usize,
  gen: G,
  test: T,
) -> (Stats, Option<Failure<C>>)
where
  C: Send,
  G: Fn(&mut Src) -> C + Sync,
  T: Fn(&C, &mut Stats) -> Result<(), Violation> + Sync,
{
  run_prop_iters(cfg, label, shards, cases_per_shard, tape_min, tape_max, 30_000, gen, test)
}

pub fn run_prop_iters<C, G, T>(
  cfg: &RunCfg,
  label: &str,
  shards: usize,
  cases_per_shard: u32,
  tape_min: usize,
  tape_max: usize,
  max_shrink_iters: u32,
  gen: G,
  test: T,
) -> (Stats, Option<Failure<C>>)
where
  C: Send,
  G: Fn(&mut Src) -> C + Sync,
  T: Fn(&C, &mut Stats) -> Result<(), Violation> + Sync,
{
  let results: Vec<(Stats, Option<Failure<C>>)> = par_map(cfg.threads, shards, |shard| run_prop_shard(cfg, label, shard, cases_per_shard, tape_min, tape_max, max_shrink_iters, &gen, &test));
  let mut total = Stats::new();
  let mut first: Option<Failure<C>> = None;
  for (st, f) in results {
    total.merge(st);
    if first.is_none() {
      first = f;
    }
  }
  (total, first)
}


// One shard on the current thread.
pub fn run_prop_shard<C, G, T>(
  cfg: &RunCfg,
  label: &str,
  shard: usize,
  cases_per_shard: u32,
  tape_min: usize,
  tape_max: usize,
  max_shrink_iters: u32,
  gen: G,
  test: T,
) -> (Stats, Option<Failure<C>>)
where
  G: Fn(&mut Src) -> C,
  T: Fn(&C, &mut Stats) -> Result<(), Violation>,
{
    let seed = seed32(cfg.seed, label, shard as u64);
    let mut config = Config::default();
    config.cases = cases_per_shard;
    config.failure_persistence = None;
    config.max_shrink_iters = max_shrink_iters;
    // shrinking is bounded by wall-clock time as well: it only starts after a failure has been
    // found, so the bound never turns a pass into a failure or vice versa
    config.max_shrink_time = 45_000;
    config.verbose = 0;
    config.max_global_rejects = 1_000_000;
    let rng = TestRng::from_seed(RngAlgorithm::ChaCha, &seed);
    let mut runner = TestRunner::new_with_rng(config, rng);
    let strategy = pvec(any::<u32>(), tape_min..=tape_max);
    let stats = RefCell::new(Stats::new());
    let failed = Cell::new(false);
    let res = runner.run(&strategy, |tape| {
      let case = gen(&mut Src::new(&tape));
      let r = if failed.get() {
        let mut scratch = Stats::new();
        run_guarded(|| test(&case, &mut scratch))
      } else {
        let mut st = stats.borrow_mut();
        st.evaluations += 1;
        run_guarded(|| test(&case, &mut st))
      };
      match r {
        Ok(()) => Ok(()),
        Err(v) => {
          failed.set(true);
          Err(TestCaseError::fail(v.kind))
        }
      }
    });
    let failure = match res {
      Ok(()) => None,
      Err(TestError::Fail(_reason, tape)) => {
        let case = gen(&mut Src::new(&tape));
        let mut scratch = Stats::new();
        let violation = match run_guarded(|| test(&case, &mut scratch)) {
          Err(v) => v,
          Ok(()) => Violation::new("flaky", "shrunk case did not reproduce".to_string()),
        };
        Some(Failure { case, violation, shard })
      }
      Err(TestError::Abort(reason)) => {
        // too many rejects: a generator problem, never a violation
        eprintln!("[engine] {} shard {} aborted: {}", label, shard, reason);
        None
      }
    };
    (stats.into_inner(), failure)
}

// The test closures may panic when the code under test panics; proptest catches that during
// the run; for the final re-run of the shrunk case we do the same.
pub fn run_guarded<F: FnOnce() -> Result<(), Violation>>(f: F) -> Result<(), Violation> {
  match std::panic::catch_unwind(std::panic::AssertUnwindSafe(f)) {
    Ok(r) => r,
    Err(p) => Err(Violation::new("panic", format!("code under test panicked: {}", panic_message(&p)))),
  }
}

pub fn panic_message(p: &Box<dyn std::any::Any + Send>) -> String {
  if let Some(s) = p.downcast_ref::<&str>() {
    s.to_string()
  } else if let Some(s) = p.downcast_ref::<String>() {
    s.clone()
  } else {
    "<non-string panic>".to_string()
  }
}

// Deterministic parallel map over 0..n: results are returned in index order.
pub fn par_map<R, F>(threads: usize, n: usize, f: F) -> Vec<R>
where
  R: Send,
  F: Fn(usize) -> R + Sync,
{
  use std::sync::atomic::{AtomicUsize, Ordering};
  use std::sync::Mutex;
  let next = AtomicUsize::new(0);
  let out: Mutex<Vec<Option<R>>> = Mutex::new((0..n).map(|_| None).collect());
  let workers = threads.max(1).min(n.max(1));
  std::thread::scope(|s| {
    for _ in 0..workers {
      s.spawn(|| loop {
        let i = next.fetch_add(1, Ordering::SeqCst);
        if i >= n {
          break;
        }
        let r = f(i);
        out.lock().unwrap()[i] = Some(r);
      });
    }
  });
  out.into_inner().unwrap().into_iter().map(|x| x.expect("worker died")).collect()
}

// Deadline helper for the structural minimisers (same reasoning as max_shrink_time).
pub struct Deadline(std::time::Instant);
impl Deadline {
  pub fn after_secs(s: u64) -> Deadline {
    Deadline(std::time::Instant::now() + std::time::Duration::from_secs(s))
  }
  pub fn passed(&self) -> bool {
    std::time::Instant::now() >= self.0
  }
}

// A check that runs far beyond its budget (for instance because a changed loop sleeps) is
// reported as an infrastructure problem (exit 2), never as a violation.
pub fn start_watchdog(seconds: u64) {
  std::thread::spawn(move || {
    std::thread::sleep(std::time::Duration::from_secs(seconds));
    eprintln!("[watchdog] the check did not finish within {} s: inconclusive (exit 2)", seconds);
    std::process::exit(2);
  });
}

pub fn install_quiet_panic_hook() {
  // Panics of the code under test are caught and turned into results; the default hook would
  // only flood stderr (and slow the run down) while proptest shrinks.
  std::panic::set_hook(Box::new(|_info| {}));
}
