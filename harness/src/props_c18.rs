// C18: events written to uinput are well-formed kernel input_event records, and the tool's
// own reader decodes them (and skips foreign records).
// Writer side: DevInputWriter on a memory file (hook H5); the bytes are decoded through
// libc::input_event. Reader side: DevInputReader on the read end of a non-blocking pipe.

use crate::dev_input_rw::{DevInputReader, DevInputWriter};
use crate::engine::*;
use crate::evidence::*;
use crate::findings::Findings;
use crate::kb::*;
use crate::keys::{Event, KeyCode};
use crate::tape::Src;
use serde_json::{json, Value};
use std::os::unix::io::RawFd;

const REC: usize = std::mem::size_of::<libc::input_event>();

fn decode_record(b: &[u8]) -> libc::input_event {
  assert!(b.len() >= REC);
  unsafe { std::ptr::read_unaligned(b.as_ptr() as *const libc::input_event) }
}

fn encode_record(type_: u16, code: u16, value: i32) -> Vec<u8> {
  let mut ev: libc::input_event = unsafe { std::mem::zeroed() };
  ev.type_ = type_;
  ev.code = code;
  ev.value = value;
  ev.time.tv_sec = 1_700_000_000;
  ev.time.tv_usec = 123_456;
  let mut out = vec![0u8; REC];
  unsafe { std::ptr::write_unaligned(out.as_mut_ptr() as *mut libc::input_event, ev) };
  out
}

struct MemFile {
  fd: RawFd,
}

impl MemFile {
  fn new() -> MemFile {
    let name = std::ffi::CString::new("tmverif-c18").unwrap();
    let fd = unsafe { libc::memfd_create(name.as_ptr(), 0) };
    assert!(fd >= 0, "memfd_create failed");
    MemFile { fd }
  }
  fn contents(&self) -> Vec<u8> {
    let len = unsafe { libc::lseek(self.fd, 0, libc::SEEK_END) } as usize;
    let mut buf = vec![0u8; len];
    let mut off = 0usize;
    while off < len {
      let n = unsafe { libc::pread(self.fd, buf[off..].as_mut_ptr() as *mut libc::c_void, len - off, off as i64) };
      if n <= 0 {
        break;
      }
      off += n as usize;
    }
    buf
  }
  fn reset(&self) {
    unsafe {
      libc::ftruncate(self.fd, 0);
      libc::lseek(self.fd, 0, libc::SEEK_SET);
    }
  }
}

impl Drop for MemFile {
  fn drop(&mut self) {
    unsafe {
      libc::close(self.fd);
    }
  }
}

struct Pipe {
  r: RawFd,
  w: RawFd,
}

impl Pipe {
  fn new() -> Pipe {
    let mut fds = [0 as libc::c_int; 2];
    let rc = unsafe { libc::pipe2(fds.as_mut_ptr(), libc::O_NONBLOCK | libc::O_CLOEXEC) };
    assert!(rc == 0, "pipe2 failed");
    Pipe { r: fds[0], w: fds[1] }
  }
  fn write_all(&self, data: &[u8]) {
    let mut off = 0;
    while off < data.len() {
      let n = unsafe { libc::write(self.w, data[off..].as_ptr() as *const libc::c_void, data.len() - off) };
      assert!(n > 0, "pipe write failed");
      off += n as usize;
    }
  }
}

impl Drop for Pipe {
  fn drop(&mut self) {
    unsafe {
      libc::close(self.r);
      libc::close(self.w);
    }
  }
}

// Independent source for "the key's kernel code": the kernel's own header, when installed.
pub fn header_codes() -> Option<std::collections::HashMap<String, u16>> {
  let text = std::fs::read_to_string("/usr/include/linux/input-event-codes.h").ok()?;
  let mut m = std::collections::HashMap::new();
  for line in text.lines() {
    let mut it = line.split_whitespace();
    if it.next() != Some("#define") {
      continue;
    }
    let name = match it.next() {
      Some(n) if n.starts_with("KEY_") => &n[4..],
      _ => continue,
    };
    let val = match it.next() {
      Some(v) => v,
      None => continue,
    };
    let parsed = if let Some(h) = val.strip_prefix("0x") { u16::from_str_radix(h, 16).ok() } else { val.parse::<u16>().ok() };
    if let Some(p) = parsed {
      m.insert(name.to_string(), p);
    }
  }
  Some(m)
}

fn variant_name(k: KeyCode) -> String {
  // Rust variant name: digits are K0..K9 for KEY_0..KEY_9
  format!("{:?}", k)
}

// the bytes the writer produces for a batch, checked against struct input_event
pub fn check_writer(mem: &MemFile, evs: &Vec<Event>) -> Result<Vec<u8>, Violation> {
  mem.reset();
  let mut w = DevInputWriter::verif_from_fd(mem.fd);
  w.send(evs).map_err(|e| Violation::new("write-failed", format!("send of {} events failed: {}", evs.len(), e)))?;
  let bytes = mem.contents();
  verify_bytes(&bytes, evs)?;
  Ok(bytes)
}

pub fn verify_bytes(bytes: &[u8], evs: &Vec<Event>) -> Result<(), Violation> {
  let expect_len = (evs.len() + 1) * REC;
  if bytes.len() != expect_len {
    return Err(Violation::new("wrong-record-size", format!("a batch of {} events was written as {} bytes; {} records of sizeof(struct input_event)={} bytes are {} bytes", evs.len(), bytes.len(), evs.len() + 1, REC, expect_len)));
  }
  for (i, e) in evs.iter().enumerate() {
    let r = decode_record(&bytes[i * REC..]);
    let (k, val) = match e {
      Event::Pressed(k) => (*k, 1),
      Event::Released(k) => (*k, 0),
    };
    if r.type_ != 1 || r.code != k as i32 as u16 || r.value != val {
      return Err(Violation::new("wrong-record", format!("record {} for {} is (type {}, code {}, value {}), expected (type 1 = EV_KEY, code {}, value {})", i, ev_text(e), r.type_, r.code, r.value, k as i32, val)));
    }
  }
  let s = decode_record(&bytes[evs.len() * REC..]);
  if s.type_ != 0 || s.code != 0 || s.value != 0 {
    return Err(Violation::new("missing-syn-report", format!("the record after the {} events is (type {}, code {}, value {}), expected SYN_REPORT (0, 0, 0)", evs.len(), s.type_, s.code, s.value)));
  }
  Ok(())
}

// ---- sessions: several batches through ONE writer on one thread -------------------------------
// "For every batch" includes the batch that follows a failed or a short write: in between the
// good batches (written to a memfd and verified) the same writer object is pointed (dup2) at a
// descriptor that rejects the write, or at a nearly full non-blocking pipe that takes only part
// of it. What those episodes themselves write is not judged (a real uinput device takes a
// batch or rejects it); every good batch must be exactly its records plus one SYN_REPORT.
#[derive(Clone, Debug)]
pub enum SessOp {
  Good(Vec<Event>),
  Rejected(Vec<Event>),
  Congested(Vec<Event>, usize), // free bytes left in the pipe
  // the sink is completely full at the moment of the send and is emptied shortly afterwards
  // (a reader that was slow): the writer may give up (Err, judged like a rejected batch) or
  // get the batch through - but a send that returns Ok has written the batch exactly once
  FullThenDrained(Vec<Event>),
}

#[derive(Clone, Debug)]
pub struct Session {
  pub ops: Vec<SessOp>,
}

pub fn session_json(s: &Session) -> Value {
  json!({"session": s.ops.iter().map(|o| match o {
    SessOp::Good(b) => json!({"good": b.iter().map(ev_text).collect::<Vec<_>>()}),
    SessOp::Rejected(b) => json!({"rejected": b.iter().map(ev_text).collect::<Vec<_>>()}),
    SessOp::Congested(b, f) => json!({"congested": b.iter().map(ev_text).collect::<Vec<_>>(), "free_bytes": f}),
    SessOp::FullThenDrained(b) => json!({"full_then_drained": b.iter().map(ev_text).collect::<Vec<_>>()}),
  }).collect::<Vec<_>>()})
}

pub fn session_from_json(v: &Value) -> Option<Session> {
  let mut ops = Vec::new();
  for o in v.get("session")?.as_array()? {
    let evs = |x: &Value| -> Option<Vec<Event>> { x.as_array()?.iter().map(|e| ev_from_text(e.as_str()?)).collect() };
    if let Some(b) = o.get("good") {
      ops.push(SessOp::Good(evs(b)?));
    } else if let Some(b) = o.get("rejected") {
      ops.push(SessOp::Rejected(evs(b)?));
    } else if let Some(b) = o.get("congested") {
      ops.push(SessOp::Congested(evs(b)?, o.get("free_bytes")?.as_u64()? as usize));
    } else if let Some(b) = o.get("full_then_drained") {
      ops.push(SessOp::FullThenDrained(evs(b)?));
    }
  }
  Some(Session { ops })
}

// Every session runs on a thread of its own: whatever the code under test keeps per thread
// (or per process and thread) starts afresh, so a failure is a function of the session alone
// and reproduces from its replay file.
pub fn run_session_isolated(s: &Session) -> Result<(), Violation> {
  std::thread::scope(|sc| {
    sc.spawn(|| {
      let mem = MemFile::new();
      run_guarded(|| run_session(&mem, s))
    })
    .join()
    .unwrap_or_else(|_| Err(Violation::new("panic", "session thread panicked".to_string())))
  })
}

// Runs `f` (a send into the write end of `p`) while a second thread empties the pipe, starting
// `delay_ms` after `f` was entered. Returns f's result and everything that was read.
// With a long delay this is only a rescue for a writer that waits for room (the unchanged one
// never does: it has returned long before); with a short one it is the slow reader of
// FullThenDrained. The verdicts drawn from it do not depend on when exactly the reader starts.
fn with_drainer<R>(p: &Pipe, delay_ms: u64, f: impl FnOnce() -> R) -> (R, Vec<u8>) {
  use std::sync::atomic::{AtomicBool, Ordering};
  let started = AtomicBool::new(false);
  let stop = AtomicBool::new(false);
  let r_fd = p.r;
  std::thread::scope(|sc| {
    let h = sc.spawn(|| {
      let mut got: Vec<u8> = Vec::new();
      while !started.load(Ordering::SeqCst) {
        std::thread::yield_now();
      }
      // (sliced, so that a send that has returned ends the wait at once)
      let mut waited = 0u64;
      while waited < delay_ms * 10 && !stop.load(Ordering::SeqCst) {
        std::thread::sleep(std::time::Duration::from_micros(100));
        waited += 1;
      }
      let mut buf = vec![0u8; 65536];
      loop {
        let stopping = stop.load(Ordering::SeqCst);
        let n = unsafe { libc::read(r_fd, buf.as_mut_ptr() as *mut libc::c_void, buf.len()) };
        if n > 0 {
          got.extend_from_slice(&buf[..n as usize]);
          continue;
        }
        if stopping {
          break;
        }
        std::thread::sleep(std::time::Duration::from_micros(100));
      }
      got
    });
    started.store(true, Ordering::SeqCst);
    let r = f();
    stop.store(true, Ordering::SeqCst);
    let got = h.join().unwrap_or_default();
    (r, got)
  })
}

fn fill_pipe(p: &Pipe, free: usize) -> usize {
  let cap = unsafe { libc::fcntl(p.w, libc::F_SETPIPE_SZ, 16384) };
  let cap = if cap > 0 { cap as usize } else { 65536 };
  let want = cap.saturating_sub(free);
  let zeros = vec![0u8; 4096];
  let mut off = 0;
  while off < want {
    let n = unsafe { libc::write(p.w, zeros.as_ptr() as *const libc::c_void, (want - off).min(4096)) };
    if n <= 0 {
      break;
    }
    off += n as usize;
  }
  off
}

pub fn run_session(mem: &MemFile, s: &Session) -> Result<(), Violation> {
  // the writer's own descriptor number; what it refers to is switched with dup2
  let x = unsafe { libc::dup(mem.fd) };
  assert!(x >= 0, "dup failed");
  let devnull = std::ffi::CString::new("/dev/null").unwrap();
  let rdonly = unsafe { libc::open(devnull.as_ptr(), libc::O_RDONLY | libc::O_CLOEXEC) };
  let mut w = DevInputWriter::verif_from_fd(x);
  let mut result = Ok(());
  // records (type, code, value) of the failed / short-written batches since the last good one
  let mut pending: Vec<(u16, u16, i32)> = Vec::new();
  fn push_records(pending: &mut Vec<(u16, u16, i32)>, b: &Vec<Event>) {
    for e in b {
      match e {
        Event::Pressed(k) => pending.push((1, *k as i32 as u16, 1)),
        Event::Released(k) => pending.push((1, *k as i32 as u16, 0)),
      }
    }
    pending.push((0, 0, 0));
  }
  for (i, op) in s.ops.iter().enumerate() {
    match op {
      SessOp::Good(b) => {
        unsafe { libc::dup2(mem.fd, x) };
        mem.reset();
        let r = w.send(b).map_err(|e| Violation::new("write-failed", format!("batch {} of the session ({} events) failed: {}", i, b.len(), e))).and_then(|_| {
          let bytes = mem.contents();
          let e_len = (b.len() + 1) * REC;
          if bytes.len() <= e_len {
            return verify_bytes(&bytes, b);
          }
          // more bytes than this batch needs: the batch itself must stand at the end, and what
          // precedes it may only be the unwritten rest of the failed / short-written batches
          // before it (a writer that completes an interrupted batch first keeps the property)
          let (prefix, own) = bytes.split_at(bytes.len() - e_len);
          verify_bytes(own, b)?;
          let full = prefix.len() / REC;
          let part = if prefix.len() % REC > 0 { 1 } else { 0 };
          let mut ok = full + part <= pending.len();
          if ok {
            for j in 0..full {
              let r = decode_record(&prefix[prefix.len() - (j + 1) * REC..]);
              if (r.type_, r.code, r.value) != pending[pending.len() - 1 - j] {
                ok = false;
                break;
              }
            }
          }
          if ok {
            Ok(())
          } else {
            Err(Violation::new("wrong-record-size", format!("a batch of {} events was written as {} bytes; its own {} bytes are preceded by {} bytes that are not the unwritten rest of an earlier failed batch", b.len(), bytes.len(), e_len, prefix.len())))
          }
        });
        pending.clear();
        if let Err(mut v) = r {
          v.detail = format!("batch {} of a session through one writer (after {} earlier batches, see the replay file): {}", i, i, v.detail);
          result = Err(v);
          break;
        }
      }
      SessOp::Rejected(b) => {
        push_records(&mut pending, b);
        if rdonly >= 0 {
          unsafe { libc::dup2(rdonly, x) };
          let _ = w.send(b);
          unsafe { libc::dup2(mem.fd, x) };
        }
      }
      SessOp::Congested(b, free) => {
        push_records(&mut pending, b);
        let p = Pipe::new();
        fill_pipe(&p, *free);
        unsafe { libc::dup2(p.w, x) };
        // (the reader is only a rescue: it starts after 400 ms, the unchanged writer returns at once)
        let _ = with_drainer(&p, 400, || { let _ = w.send(b); });
        unsafe { libc::dup2(mem.fd, x) };
      }
      SessOp::FullThenDrained(b) => {
        let p = Pipe::new();
        let filled = fill_pipe(&p, 0);
        unsafe { libc::dup2(p.w, x) };
        let (r, got) = with_drainer(&p, 3, || w.send(b));
        unsafe { libc::dup2(mem.fd, x) };
        let written: &[u8] = if got.len() >= filled { &got[filled..] } else { &[] };
        match r {
          // (after a failed / short-written batch a writer may first complete that one: then
          // this episode is not judged, like a congested one)
          Ok(()) if !pending.is_empty() => {
            pending.clear();
          }
          Ok(()) => {
            if let Err(mut v) = verify_bytes(written, b) {
              v.detail = format!("batch {} of a session: the sink was full when the batch of {} events was sent and was emptied 3 ms later; send returned Ok and {} bytes arrived: {}", i, b.len(), written.len(), v.detail);
              result = Err(v);
              break;
            }
          }
          Err(_) => {
            push_records(&mut pending, b);
          }
        }
      }
    }
  }
  drop(w);
  unsafe {
    libc::close(x);
    if rdonly >= 0 {
      libc::close(rdonly);
    }
  }
  result
}

// feeds bytes to the tool's reader through a pipe and collects what it returns
pub fn read_back(stream: &[u8]) -> Result<Vec<Event>, Violation> {
  let p = Pipe::new();
  let mut reader = DevInputReader { fd: p.r };
  let mut out = Vec::new();
  let chunk = (32 * 1024 / REC) * REC;
  let mut off = 0;
  loop {
    let end = (off + chunk).min(stream.len());
    if off < end {
      p.write_all(&stream[off..end]);
    }
    off = end;
    let mut guard = 0usize;
    loop {
      guard += 1;
      if guard > 100_000 {
        return Err(Violation::new("reader-does-not-stop", "the reader returned more events than records were written".to_string()));
      }
      match reader.next() {
        Ok(ev) => out.push(ev),
        Err(nix::Error::Sys(nix::errno::Errno::EAGAIN)) => break,
        Err(e) => return Err(Violation::new("reader-error", format!("the reader failed with {}", e))),
      }
    }
    if off >= stream.len() {
      break;
    }
  }
  Ok(out)
}

#[derive(Clone, Debug)]
pub struct C18Case {
  pub batch: Vec<Event>,
  pub foreign: Vec<(usize, u16, u16, i32)>, // (insert before event index, type, code, value)
}

fn case_json(c: &C18Case) -> Value {
  json!({"batch": c.batch.iter().map(ev_text).collect::<Vec<_>>(), "foreign": c.foreign.iter().map(|(i, t, c, v)| json!([i, t, c, v])).collect::<Vec<_>>()})
}

fn case_from_json(v: &Value) -> Option<C18Case> {
  let batch: Vec<Event> = v.get("batch")?.as_array()?.iter().filter_map(|x| x.as_str().and_then(ev_from_text)).collect();
  let foreign = v.get("foreign")?.as_array()?.iter().filter_map(|x| {
    let a = x.as_array()?;
    Some((a[0].as_u64()? as usize, a[1].as_u64()? as u16, a[2].as_u64()? as u16, a[3].as_i64()? as i32))
  }).collect();
  Some(C18Case { batch, foreign })
}

pub fn run_case(mem: &MemFile, c: &C18Case, known_codes: &std::collections::HashSet<u16>) -> Result<(), Violation> {
  let bytes = check_writer(mem, &c.batch)?;
  // the tool's own reader returns the same events
  let back = read_back(&bytes)?;
  if back != c.batch {
    return Err(Violation::new("round-trip-differs", format!("wrote [{}], the reader returned [{}]", evs_text(&c.batch[..c.batch.len().min(12)]), evs_text(&back[..back.len().min(12)]))));
  }
  if !c.foreign.is_empty() {
    // interleave foreign records; the reader must return exactly the valid key events
    let mut stream: Vec<u8> = Vec::new();
    let mut expect: Vec<Event> = Vec::new();
    for i in 0..=c.batch.len() {
      for (at, t, code, val) in &c.foreign {
        if *at == i {
          stream.extend(encode_record(*t, *code, *val));
          if *t == 1 && (*val == 0 || *val == 1) && known_codes.contains(code) {
            let k: KeyCode = num_traits::FromPrimitive::from_u16(*code).unwrap();
            expect.push(if *val == 1 { Event::Pressed(k) } else { Event::Released(k) });
          }
        }
      }
      if i < c.batch.len() {
        stream.extend_from_slice(&bytes[i * REC..(i + 1) * REC]);
        expect.push(c.batch[i].clone());
      }
    }
    stream.extend_from_slice(&bytes[c.batch.len() * REC..]);
    let back = read_back(&stream)?;
    if back != expect {
      return Err(Violation::new("foreign-record-not-skipped", format!("stream of {} records ({} foreign: {:?}): the reader returned [{}], expected [{}]", stream.len() / REC, c.foreign.len(), &c.foreign[..c.foreign.len().min(6)], evs_text(&back[..back.len().min(12)]), evs_text(&expect[..expect.len().min(12)]))));
    }
  }
  Ok(())
}

pub fn check(cfg: &RunCfg, _findings: &Findings) -> Report {
  let mut rep = Report::new(
    "C18",
    "exploration",
    "writer: every key code x {press, release} as a batch of one (exhaustive), the empty batch, random batches of 0-3000 events over all key codes; the bytes are decoded through libc::input_event; reader: the same bytes, and streams with foreign records (EV_SYN, EV_MSC, EV_REL, value 2 / 3 / -1, unknown codes) interleaved, are read back through a pipe by the tool's own reader; non-trivial = batch of >=2 events or a stream with foreign records; distinct = hash of the case",
  );
  let quick = cfg.tier == Tier::Quick;
  let all = all_key_codes();
  let known: std::collections::HashSet<u16> = all.iter().map(|k| *k as i32 as u16).collect();
  let mem = MemFile::new();
  // record size against the kernel's struct
  rep.extra.insert("sizeof_input_event".into(), json!(REC));
  // key codes against the kernel header (independent of key_codes.rs), when installed
  if let Some(h) = header_codes() {
    let mut matched = 0u64;
    for k in &all {
      let name = variant_name(*k);
      let hname = if name.len() == 2 && name.starts_with('K') && name[1..].chars().all(|c| c.is_ascii_digit()) { name[1..].to_string() } else { name.clone() };
      if let Some(code) = h.get(&hname) {
        matched += 1;
        rep.stats.evaluations += 1;
        if *code != *k as i32 as u16 {
          let v = Violation::new("wrong-kernel-code", format!("key {} has code {} in the tool but KEY_{} is {} in linux/input-event-codes.h", name, *k as i32, hname, code));
          let path = write_replay("C18", &v, &json!({"batch": [format!("+{}", key_name(*k))], "foreign": []}));
          rep.violations.push((v, path));
          return rep;
        }
      }
    }
    rep.stats.count("key-codes-checked-against-kernel-header", matched);
  }
  // exhaustive: every key code, press and release; empty batch
  let mut cases: Vec<C18Case> = vec![C18Case { batch: vec![], foreign: vec![] }];
  for k in &all {
    cases.push(C18Case { batch: vec![Event::Pressed(*k)], foreign: vec![] });
    cases.push(C18Case { batch: vec![Event::Released(*k)], foreign: vec![] });
    cases.push(C18Case { batch: vec![Event::Pressed(*k), Event::Released(*k)], foreign: vec![(1, 1, *k as i32 as u16, 2)] });
  }
  for c in &cases {
    rep.stats.evaluations += 1;
    if c.batch.len() >= 2 {
      rep.stats.nontrivial_case(hash64(&case_json(c).to_string()));
    }
    if let Err(v) = run_guarded(|| run_case(&mem, c, &known)) {
      let path = write_replay("C18", &v, &case_json(c));
      rep.violations.push((v, path));
      return rep;
    }
  }
  rep.stats.count("key-codes-enumerated", all.len() as u64);
  // foreign codes: every code 0..0x2ff that the tool does not know, both values
  let mut unknown_codes = 0u64;
  for code in 0u16..0x300 {
    if !known.contains(&code) {
      unknown_codes += 1;
      let c = C18Case { batch: vec![Event::Pressed(KeyCode::A)], foreign: vec![(0, 1, code, 1), (1, 1, code, 0)] };
      rep.stats.evaluations += 1;
      rep.stats.nontrivial_case(hash64(&case_json(&c).to_string()));
      if let Err(v) = run_guarded(|| run_case(&mem, &c, &known)) {
        let path = write_replay("C18", &v, &case_json(&c));
        rep.violations.push((v, path));
        return rep;
      }
    }
  }
  rep.stats.count("unknown-codes-enumerated", unknown_codes);
  // foreign records of every type 0..=0x1f with every code 0..=23 (EV_SYN codes such as
  // SYN_DROPPED included), before, between and after key events
  let mut foreign_pairs = 0u64;
  for t in 0u16..=0x1f {
    for code in 0u16..24 {
      if t == 1 {
        continue;
      }
      for val in [0i32, 1] {
        let c = C18Case { batch: vec![Event::Pressed(KeyCode::LEFTSHIFT), Event::Pressed(KeyCode::A), Event::Released(KeyCode::A)], foreign: vec![(0, t, code, val), (1, t, code, val), (3, t, code, val)] };
        foreign_pairs += 1;
        rep.stats.evaluations += 1;
        rep.stats.nontrivial_case(hash64(&case_json(&c).to_string()));
        if let Err(v) = run_guarded(|| run_case(&mem, &c, &known)) {
          let path = write_replay("C18", &v, &case_json(&c));
          rep.violations.push((v, path));
          return rep;
        }
      }
    }
  }
  rep.stats.count("foreign-type-code-pairs-enumerated", foreign_pairs);
  let all_ref = &all;
  let known_ref = &known;
  let (st, fail) = run_prop(
    cfg,
    "C18-batches",
    16,
    if quick { 800 } else { 10_000 },
    32,
    400,
    |src: &mut Src| {
      let n = match src.weighted(&[5, 45, 30, 15, 5]) {
        0 => 0,
        1 => src.range(1, 8),
        2 => src.range(9, 100),
        3 => src.range(101, 1000),
        _ => src.range(1001, 3000),
      };
      // long batches: the tape only seeds a cheap generator for the tail
      let mut batch = Vec::with_capacity(n);
      let mut h = src.u32() as u64 | 1;
      for i in 0..n {
        let (ki, press) = if i < 64 {
          (src.below(all_ref.len()), src.chance(50))
        } else {
          h = crate::tape::splitmix64(h);
          ((h % all_ref.len() as u64) as usize, (h >> 40) & 1 == 1)
        };
        batch.push(if press { Event::Pressed(all_ref[ki]) } else { Event::Released(all_ref[ki]) });
      }
      let nf = if src.chance(65) { src.range(1, 8) } else { 0 };
      let mut foreign = Vec::new();
      for _ in 0..nf {
        let at = src.below(n + 1);
        let rec = match src.below(9) {
          0 => (0u16, src.pick(&[0u16, 0, 1, 2, 3, 4]), 0i32),               // SYN_REPORT, SYN_CONFIG, SYN_MT_REPORT, SYN_DROPPED
          1 => (4, 4, src.below(256) as i32),                             // EV_MSC / MSC_SCAN
          2 => (1, all_ref[src.below(all_ref.len())] as i32 as u16, 2),   // auto-repeat
          3 => (1, all_ref[src.below(all_ref.len())] as i32 as u16, src.pick(&[3, -1, i32::MAX, i32::MIN, 256])),
          4 => (1, src.pick(&[0u16, 84, 0x2ff, 0x300, 0xffff, 249, 255]), src.below(2) as i32), // unknown / reserved codes
          5 => (2, src.below(16) as u16, src.below(100) as i32 - 50),     // EV_REL
          6 => (3, src.below(64) as u16, src.below(1000) as i32),         // EV_ABS
          7 => (17, src.below(16) as u16, src.below(2) as i32),           // EV_LED
          _ => (src.pick(&[5u16, 0x14, 0x15, 0x1f, 0x100, 0xffff]), src.below(700) as u16, src.below(2) as i32),
        };
        foreign.push((at, rec.0, rec.1, rec.2));
      }
      C18Case { batch, foreign }
    },
    |c: &C18Case, stats: &mut Stats| {
      thread_local! {
        static MEM: MemFile = MemFile::new();
      }
      MEM.with(|mem| run_case(mem, c, known_ref))?;
      stats.label(match c.batch.len() {
        0 => "batch:0",
        1..=8 => "batch:1-8",
        9..=100 => "batch:9-100",
        101..=1000 => "batch:101-1000",
        _ => "batch:1001+",
      });
      if !c.foreign.is_empty() {
        stats.label("stream-with-foreign-records");
      }
      if c.batch.len() >= 2 || !c.foreign.is_empty() {
        stats.label("non-trivial");
        stats.nontrivial_case(hash64(&(c.batch.iter().map(ev_text).collect::<Vec<_>>(), &c.foreign)));
        if stats.want_nontrivial_sample() && c.batch.len() <= 6 {
          stats.nontrivial_samples.push(case_json(c));
        }
      }
      Ok(())
    },
  );
  rep.stats.merge(st);
  if let Some(f) = fail {
    // minimise: shorter batch, fewer foreign records
    let kind = f.violation.kind.clone();
    let fails = |c: &C18Case| matches!(run_guarded(|| run_case(&mem, c, &known)), Err(v) if v.kind == kind);
    let mut best = f.case.clone();
    if fails(&best) {
      let mut changed = true;
      while changed {
        changed = false;
        while best.batch.len() > 1 {
          let mut c = best.clone();
          c.batch.truncate(best.batch.len() / 2);
          { let n = c.batch.len(); c.foreign.retain(|(at, ..)| *at <= n); }
          if fails(&c) {
            best = c;
            changed = true;
          } else {
            break;
          }
        }
        for i in (0..best.batch.len().min(64)).rev() {
          let mut c = best.clone();
          c.batch.remove(i);
          { let n = c.batch.len(); c.foreign.retain(|(at, ..)| *at <= n); }
          if fails(&c) {
            best = c;
            changed = true;
          }
        }
        for i in (0..best.foreign.len()).rev() {
          let mut c = best.clone();
          c.foreign.remove(i);
          if fails(&c) {
            best = c;
            changed = true;
          }
        }
      }
    }
    let v2 = run_guarded(|| run_case(&mem, &best, &known)).err().unwrap_or(f.violation);
    let path = write_replay("C18", &v2, &case_json(&best));
    rep.violations.push((v2, path));
    return rep;
  }
  // sessions
  {
    let (st, fail) = run_prop(
      cfg,
      "C18-sessions",
      16,
      if quick { 1_500 } else { 20_000 },
      32,
      400,
      |src: &mut Src| {
        let n_ops = src.range(2, 8);
        let mut ops = Vec::new();
        for _ in 0..n_ops {
          let n = match src.weighted(&[10, 55, 15, 20]) {
            0 => 0,
            1 => src.range(1, 12),
            2 => src.range(13, 169),
            _ => src.range(170, 600),
          };
          let mut h = src.u32() as u64 | 1;
          let mut batch = Vec::with_capacity(n);
          for i in 0..n {
            let (ki, press) = if i < 16 {
              (src.below(all_ref.len()), src.chance(50))
            } else {
              h = crate::tape::splitmix64(h);
              ((h % all_ref.len() as u64) as usize, (h >> 40) & 1 == 1)
            };
            batch.push(if press { Event::Pressed(all_ref[ki]) } else { Event::Released(all_ref[ki]) });
          }
          ops.push(match src.weighted(&[58, 20, 16, 6]) {
            0 => SessOp::Good(batch),
            1 => SessOp::Rejected(batch),
            2 => SessOp::Congested(batch, src.pick(&[0usize, 24, 100, 4096, 5000, 8192])),
            _ => {
              // (at most 160 events: up to PIPE_BUF bytes a pipe write is all or nothing)
              batch.truncate(160);
              SessOp::FullThenDrained(batch)
            }
          });
        }
        Session { ops }
      },
      |s: &Session, stats: &mut Stats| {
        if let Err(v) = run_session_isolated(s) {
          if std::env::var("TM_DEBUG_C18").is_ok() {
            eprintln!("[debug] session failed: {} {}", v.kind, v.detail);
          }
          return Err(v);
        }
        stats.label("session");
        let bad = s.ops.iter().filter(|o| !matches!(o, SessOp::Good(_))).count();
        if bad > 0 && matches!(s.ops.last(), Some(SessOp::Good(_))) {
          stats.label("good-batch-after-a-failed-or-short-write");
          stats.nontrivial_case(hash64(&session_json(s).to_string()));
        }
        Ok(())
      },
    );
    rep.stats.merge(st);
    if let Some(f) = fail {
      // minimise: fewer operations, shorter batches
      let kind = f.violation.kind.clone();
      let fails = |s: &Session| matches!(run_session_isolated(s), Err(v) if v.kind == kind);
      let mut best = f.case.clone();
      let mut changed = fails(&best);
      while changed {
        changed = false;
        for i in (0..best.ops.len()).rev() {
          let mut c = best.clone();
          c.ops.remove(i);
          if !c.ops.is_empty() && fails(&c) {
            best = c;
            changed = true;
          }
        }
        for i in 0..best.ops.len() {
          loop {
            let mut c = best.clone();
            let b = match &mut c.ops[i] {
              SessOp::Good(b) | SessOp::Rejected(b) | SessOp::Congested(b, _) | SessOp::FullThenDrained(b) => b,
            };
            if b.is_empty() {
              break;
            }
            let keep = b.len() - (b.len() + 1) / 2;
            b.truncate(keep);
            if fails(&c) {
              best = c;
              changed = true;
            } else {
              break;
            }
          }
        }
      }
      let v2 = run_session_isolated(&best).err().unwrap_or(f.violation);
      let path = write_replay("C18", &v2, &session_json(&best));
      rep.violations.push((v2, path));
      return rep;
    }
  }
  rep.extra.insert("exhaustive_slices".into(), json!(["every key code x {press, release} as a single-event batch", "every unknown code below 0x300 as a foreign record", "the empty batch"]));
  rep.assumptions = vec![
    "x86-64 Linux layout of struct input_event as given by the libc crate".to_string(),
    "the reader is never driven to end-of-file (an evdev node does not report EOF); it is read until EAGAIN with the write end open".to_string(),
    "the kernel header /usr/include/linux/input-event-codes.h, when present, is the reference for key codes".to_string(),
  ];
  rep
}

pub fn replay(file: &str) -> Result<(), Violation> {
  let text = std::fs::read_to_string(file).map_err(|e| Violation::new("io", format!("cannot read {}: {}", file, e)))?;
  let v: Value = serde_json::from_str(&text).map_err(|e| Violation::new("io", e.to_string()))?;
  if let Some(sess) = session_from_json(v.get("case").unwrap_or(&v)) {
    return run_session_isolated(&sess);
  }
  let c = case_from_json(v.get("case").unwrap_or(&v)).ok_or_else(|| Violation::new("io", "bad case".to_string()))?;
  let known: std::collections::HashSet<u16> = all_key_codes().iter().map(|k| *k as i32 as u16).collect();
  let mem = MemFile::new();
  run_guarded(|| run_case(&mem, &c, &known))
}
