// Monitors for the mapper properties C01-C05, C07-C09, C19 (C06 is a differential check and
// lives in props_mapper.rs). One `Mon` value follows one history; it is fed the input event
// and the real mapper's StepResult after every step and answers with the violations it saw.
// Everything here is computed from the layout, the physical key set kept by the harness and
// the emitted events - never from the mapper's internal state.

use crate::engine::Violation;
use crate::kb::*;
use crate::key_transforms::ResultingRepeat;
use crate::keys::{Event, KeyCode, Layout, Mapping, Repeat};
use std::collections::HashMap;

pub type Props = u32;
pub const fn p(n: u32) -> Props {
  1 << n
}
pub const ALL_MAPPER_PROPS: Props = p(1) | p(2) | p(3) | p(4) | p(5) | p(7) | p(8) | p(9) | p(19);

#[derive(Clone, Debug)]
pub struct PV {
  pub prop: u32,
  pub v: Violation,
}

pub struct Info {
  pub layout: Layout,
  pub absorbing: bool,
  pub tag_owner: HashMap<KeyCode, usize>,
  pub tag_of: Vec<Option<KeyCode>>,
  pub all_keys: KeySet,
  pub never_output: KeySet,
  pub by_final: HashMap<KeyCode, Vec<usize>>,
  pub sole: Vec<Vec<KeyCode>>,
  pub all_absorbing_tagged: bool,
  pub absorbable: KeySet, // keys named in some mapping's absorbing list
  pub alphabet: KeySet,
  pub foreign: KeySet,
}

impl Info {
  pub fn new(layout: &Layout, alphabet: &[KeyCode]) -> Info {
    let alphabet = KeySet::from_slice(alphabet);
    let n = layout.mappings.len();
    let mut by_final: HashMap<KeyCode, Vec<usize>> = HashMap::new();
    for (i, m) in layout.mappings.iter().enumerate() {
      by_final.entry(*m.from.last().unwrap()).or_default().push(i);
    }
    let mut out_count: HashMap<KeyCode, usize> = HashMap::new();
    for m in &layout.mappings {
      for k in &m.to {
        *out_count.entry(*k).or_insert(0) += 1;
      }
    }
    let trig = trigger_keys(layout);
    let mut tag_owner = HashMap::new();
    let mut tag_of = vec![None; n];
    for (i, m) in layout.mappings.iter().enumerate() {
      if let Some(t) = m.to.last() {
        if !is_modifier(*t) && out_count[t] == 1 && !trig.contains(*t) && !alphabet.contains(*t) {
          tag_owner.insert(*t, i);
          tag_of[i] = Some(*t);
        }
      }
    }
    let mut never_output = KeySet::new();
    for m in &layout.mappings {
      if m.from.len() == 1 && !out_count.contains_key(&m.from[0]) {
        never_output.insert(m.from[0]);
      }
    }
    let sole: Vec<Vec<KeyCode>> = layout.mappings.iter().map(|m| m.to.iter().cloned().filter(|k| out_count[k] == 1).collect()).collect();
    let all_keys = layout_keys(layout);
    let mut foreign = KeySet::new();
    for k in alphabet.iter() {
      if !all_keys.contains(*k) {
        foreign.insert(*k);
      }
    }
    let absorbing = has_absorbing(layout);
    let all_absorbing_tagged = layout.mappings.iter().enumerate().all(|(i, m)| m.absorbing.is_empty() || tag_of[i].is_some());
    let mut absorbable = KeySet::new();
    for m in &layout.mappings {
      for a in &m.absorbing {
        absorbable.insert(*a);
      }
    }
    Info { layout: layout.clone(), absorbing, tag_owner, tag_of, all_keys, never_output, by_final, sole, all_absorbing_tagged, absorbable, alphabet, foreign }
  }

  // the property text of C03 in ten lines: last listed mapping whose final trigger key is k
  // and whose other trigger keys are all in `held`
  pub fn fired(&self, k: KeyCode, held: &KeySet) -> Option<usize> {
    let group = self.by_final.get(&k)?;
    for &i in group.iter().rev() {
      let m = &self.layout.mappings[i];
      if m.from[..m.from.len() - 1].iter().all(|t| held.contains(*t)) {
        return Some(i);
      }
    }
    None
  }

  pub fn satisfied_count(&self, k: KeyCode, held: &KeySet) -> usize {
    match self.by_final.get(&k) {
      None => 0,
      Some(group) => group.iter().filter(|&&i| {
        let m = &self.layout.mappings[i];
        m.from[..m.from.len() - 1].iter().all(|t| held.contains(*t))
      }).count(),
    }
  }

  fn m(&self, i: usize) -> &Mapping {
    &self.layout.mappings[i]
  }
}

#[derive(Clone, Debug, PartialEq, Eq, Hash)]
pub struct Window {
  pub m: KeyCode,         // absorbed modifier
  pub k: KeyCode,         // the key that triggered the absorbing mapping
  pub overwriters: KeySet, // keys at whose press inside the window another absorbing mapping was physically satisfied
}

#[derive(Clone, Debug, PartialEq, Eq, Hash, Default)]
pub struct Mon {
  pub phys: KeySet,
  pub out: KeySet,
  pub in_effect: Vec<u32>,
  pub norepeat_window: bool,
  pub windows: Vec<Window>,
  pub suspect: KeySet,
  pub recovered: KeySet, // absorbed once, then really released and pressed again, still held
  pub refire: Option<(KeyCode, KeyCode, KeySet, u8)>,
}

// Facts about one run, used for the evidence (labels, non-triviality); never part of a verdict.
#[derive(Clone, Debug, Default)]
pub struct Facts {
  pub fired: u32,
  pub rest_after_fire: u32,
  pub step_effect_2held: u32,
  pub multi_satisfied_press: u32,
  pub chord_while_held: u32,
  pub tag_with_modifier_down: u32,
  pub foreign_across: u32,
  pub norepeat_other_down: u32,
  pub window_press_inside: u32,
  pub special_fired: u32,
  pub norepeat_fired: u32,
  pub ignored_events: u32,
  pub two_in_effect: u32,
  pub max_in_effect: u32,
  pub windows_opened: u32,
  pub pending_fire_since_rest: bool,
}

fn v(prop: u32, kind: &str, detail: String) -> PV {
  PV { prop, v: Violation::new(kind, detail) }
}

impl Mon {
  pub fn new() -> Mon {
    Mon::default()
  }

  pub fn reset_after_release_all(&mut self) {
    self.phys.clear();
    self.in_effect.clear();
    self.norepeat_window = false;
    self.windows.clear();
    self.suspect.clear();
    self.recovered.clear();
    self.refire = None;
  }

  // release_all batch (tablet-mode reset): folds the batch, demands an empty output set.
  pub fn on_release_all(&mut self, info: &Info, events: &[Event], sel: Props, out: &mut Vec<PV>) {
    let mut cur = self.out.clone();
    for e in events {
      match e {
        Event::Pressed(x) => {
          if sel & p(19) != 0 && cur.contains(*x) {
            out.push(v(19, "redundant-press", format!("release_all batch presses {} which is already down", key_name(*x))));
          }
          if sel & p(2) != 0 {
            out.push(v(2, "press-on-release", format!("release_all batch presses {}", key_name(*x))));
          }
          cur.insert(*x);
        }
        Event::Released(x) => {
          if sel & p(19) != 0 && !cur.contains(*x) {
            out.push(v(19, "redundant-release", format!("release_all batch releases {} which is not down", key_name(*x))));
          }
          cur.remove(*x);
        }
      }
    }
    self.out = cur;
    if sel & p(1) != 0 && !self.out.is_empty() {
      out.push(v(1, "stuck-key", format!("after release_all the output still holds {:?}", self.out.names())));
    }
    self.reset_after_release_all();
  }

  pub fn on_step(&mut self, info: &Info, input: &Event, events: &[Event], repeat: &ResultingRepeat, sel: Props, facts: &mut Facts, out: &mut Vec<PV>) {
    let (is_press, k) = match input {
      Event::Pressed(k) => (true, *k),
      Event::Released(k) => (false, *k),
    };
    let phys_before = self.phys.clone();
    let out_before = self.out.clone();
    let acted_phys = if is_press { !phys_before.contains(k) } else { phys_before.contains(k) };
    let mut phys_after = phys_before.clone();
    if is_press {
      phys_after.insert(k);
    } else {
      phys_after.remove(k);
    }
    let layout = &info.layout;
    let nonabs = !info.absorbing;

    // ---- model of "in effect" (non-absorbing layouts only) ----
    let in_effect_before = self.in_effect.clone();
    let mut fired_model: Option<usize> = None;
    if nonabs && acted_phys {
      if is_press {
        fired_model = info.fired(k, &phys_before);
        if let Some(i) = fired_model {
          self.in_effect.push(i as u32);
        }
      } else {
        self.in_effect.retain(|&i| !info.m(i as usize).from.contains(&k));
      }
    }
    let in_effect_after = self.in_effect.clone();
    // physically satisfied mapping (any layout)
    let fired_phys: Option<usize> = if is_press && acted_phys { info.fired(k, &phys_before) } else { None };

    // tags pressed in this step
    let mut pressed_tags: Vec<(KeyCode, usize)> = Vec::new();
    for e in events {
      if let Event::Pressed(x) = e {
        if let Some(&o) = info.tag_owner.get(x) {
          if !pressed_tags.iter().any(|(t, _)| t == x) {
            pressed_tags.push((*x, o));
          }
        }
      }
    }

    // does this step fire a no-repeat mapping?  exact (model) or weak (layout level)
    let fires_norepeat_model = fired_model.map(|i| is_norepeat(info.m(i))).unwrap_or(false);
    let fires_norepeat_weak = is_press && layout.mappings.iter().any(|m| is_norepeat(m) && *m.from.last().unwrap() == k && phys_after.contains_all(&m.from));

    // ---- C08: close windows on any press/release of M, then note what is open ----
    if info.absorbing {
      self.windows.retain(|w| w.m != k);
      if is_press && acted_phys {
        if self.suspect.remove(k) {
          self.recovered.insert(k);
        }
      }
      if !is_press {
        self.recovered.remove(k);
      }
    }
    // (a physically duplicate press counts as a press here: the mapper acts on it when it has
    // forgotten the key, and emits nothing otherwise)
    let open_windows: Vec<Window> = if info.absorbing && is_press { self.windows.iter().filter(|w| w.k != k).cloned().collect() } else { Vec::new() };
    if !open_windows.is_empty() {
      facts.window_press_inside += 1;
    }

    // ---- fold the events one by one ----
    let mut cur = out_before.clone();
    let mut saw_press_of_k = false;
    for e in events {
      match e {
        Event::Pressed(x) => {
          let x = *x;
          if sel & p(19) != 0 && cur.contains(x) {
            out.push(v(19, "redundant-press", format!("step {} presses {} which is already down on the output", ev_text(input), key_name(x))));
          }
          if sel & p(2) != 0 {
            if info.never_output.contains(x) {
              out.push(v(2, "consumed-key-leaks", format!("step {} presses {}, which has a single-key mapping and occurs in no mapping's output", ev_text(input), key_name(x))));
            }
            if !is_press {
              out.push(v(2, "press-on-release", format!("release step {} presses {}", ev_text(input), key_name(x))));
            }
          }
          if sel & p(7) != 0 && !is_press && self.norepeat_window {
            out.push(v(7, "held-again-after-norepeat", format!("after a no-repeat firing, release step {} presses {}", ev_text(input), key_name(x))));
          }
          if x == k {
            saw_press_of_k = true;
          }
          // C04: instant of a tag press
          if sel & p(4) != 0 && nonabs && is_press {
            if let Some(&owner) = info.tag_owner.get(&x) {
              let m = info.m(owner);
              if cur.iter().any(|d| is_modifier(*d)) {
                facts.tag_with_modifier_down += 1;
              }
              for mo in m.to.iter().filter(|d| is_modifier(**d)) {
                if !cur.contains(*mo) {
                  out.push(v(4, "missing-output-modifier", format!("at the press of {} (mapping {}) its output modifier {} is not down", key_name(x), mapping_text(m), key_name(*mo))));
                }
              }
              for d in cur.iter().filter(|d| is_modifier(**d)) {
                if m.to.contains(d) {
                  continue;
                }
                let phys_ok = phys_after.contains(*d) && !m.from.contains(d);
                let remap_ok = in_effect_after.iter().any(|&j| {
                  let mj = info.m(j as usize);
                  mj.to.contains(d) && mj.to.last().map(|l| is_modifier(*l)).unwrap_or(false)
                });
                if !phys_ok && !remap_ok {
                  out.push(v(4, "stale-modifier", format!("at the press of {} (mapping {}) modifier {} is down although it is neither an output of the mapping, nor physically held outside the trigger, nor output of a held modifier-remapping", key_name(x), mapping_text(m), key_name(*d))));
                }
              }
            }
          }
          // C05 (i): foreign keys
          if sel & p(5) != 0 && info.foreign.contains(x) {
            if !(is_press && x == k && acted_phys) {
              out.push(v(5, "foreign-key-pressed", format!("step {} presses foreign key {}", ev_text(input), key_name(x))));
            }
          }
          // C08 (b)
          if sel & p(8) != 0 && !is_modifier(x) {
            for w in &open_windows {
              if cur.contains(w.m) {
                let justified = layout.mappings.iter().any(|mm| mm.to.contains(&w.m) && phys_after.contains_all(&mm.from));
                if !justified {
                  let sig = if w.overwriters.contains(k) { "absorbing-trigger-slot-overwritten" } else { "" };
                  out.push(PV { prop: 8, v: Violation::with_sig("absorbed-modifier-still-down", sig, format!("{} was absorbed at the press of {} and not pressed again, yet it is down when step {} presses {}", key_name(w.m), key_name(w.k), ev_text(input), key_name(x))) });
                }
              }
            }
          }
          cur.insert(x);
        }
        Event::Released(x) => {
          let x = *x;
          if sel & p(19) != 0 && !cur.contains(x) {
            out.push(v(19, "redundant-release", format!("step {} releases {} which is not down on the output", ev_text(input), key_name(x))));
          }
          if sel & p(5) != 0 {
            if info.foreign.contains(x) {
              let own = !is_press && x == k;
              let norepeat = !is_modifier(x) && (if nonabs { fires_norepeat_model } else { fires_norepeat_weak });
              if !own && !norepeat {
                out.push(v(5, "foreign-key-released", format!("step {} releases foreign key {}", ev_text(input), key_name(x))));
              }
            }
            if !is_press && acted_phys && x != k {
              // (ii) a release step lifts only k itself and outputs of mappings that have k in their trigger
              let ok = if nonabs {
                in_effect_before.iter().any(|&j| {
                  let mj = info.m(j as usize);
                  mj.from.contains(&k) && mj.to.contains(&x)
                })
              } else {
                layout.mappings.iter().any(|mj| mj.from.contains(&k) && mj.to.contains(&x))
              };
              if !ok {
                out.push(v(5, "release-lifts-unrelated-key", format!("release step {} lifts {}, which is neither that key nor an output of a mapping with {} in its trigger", ev_text(input), key_name(x), key_name(k))));
              }
              if nonabs && in_effect_after.iter().any(|&j| info.m(j as usize).to.contains(&x)) {
                out.push(v(5, "release-lifts-output-in-effect", format!("release step {} lifts {}, which a mapping remaining in effect outputs", ev_text(input), key_name(x))));
              }
            }
            if nonabs {
              // (iii) protected outputs of mappings that stay in effect
              for &j in in_effect_before.iter() {
                if !in_effect_after.contains(&j) {
                  continue;
                }
                let mj = info.m(j as usize);
                if !info.sole[j as usize].contains(&x) {
                  continue;
                }
                let ends_in_mod = mj.to.last().map(|l| is_modifier(*l)).unwrap_or(false);
                let prot_a = ends_in_mod && is_modifier(x);
                let prot_b = matches!(mj.repeat, Repeat::Normal) && !mj.to.iter().any(|d| is_modifier(*d)) && !fires_norepeat_model;
                if prot_a || prot_b {
                  out.push(v(5, "protected-output-lifted", format!("step {} lifts {}, output only by mapping {} which stays in effect", ev_text(input), key_name(x), mapping_text(mj))));
                }
              }
            }
          }
          cur.remove(x);
        }
      }
    }
    self.out = cur;
    let out_after = self.out.clone();

    // ---- C05 (i) continued: foreign key must be pressed at its own physical press and be
    //      gone at its own physical release; empty layout = identity on effective events ----
    if sel & p(5) != 0 {
      if info.foreign.contains(k) {
        if is_press && acted_phys && !saw_press_of_k {
          out.push(v(5, "foreign-key-not-passed", format!("physical press of foreign key {} produced no press of it", key_name(k))));
        }
        if !is_press && acted_phys && out_after.contains(k) {
          out.push(v(5, "foreign-key-stuck", format!("foreign key {} still down after its physical release", key_name(k))));
        }
        if (phys_before.contains(k) && phys_after.contains(k)) && out_before.contains(k) && !out_after.contains(k) && !(if nonabs { fires_norepeat_model } else { fires_norepeat_weak }) {
          // covered event-wise above; kept for the fold
        }
      }
      if layout.mappings.is_empty() {
        let expect: Vec<Event> = if acted_phys { vec![input.clone()] } else { vec![] };
        if events != &expect[..] {
          out.push(v(5, "empty-layout-not-identity", format!("empty layout: step {} emitted [{}]", ev_text(input), evs_text(events))));
        }
      }
      if !info.foreign.is_empty() && (!in_effect_before.is_empty() || phys_before.iter().any(|f| info.foreign.contains(*f))) && (fired_model.is_some() || in_effect_after.len() < in_effect_before.len()) {
        facts.foreign_across += 1;
      }
    }

    // ---- C01 ----
    if sel & p(1) != 0 && phys_after.is_empty() && !out_after.is_empty() {
      out.push(v(1, "stuck-key", format!("all physical keys released after {} but the output still holds {:?}", ev_text(input), out_after.names())));
    }

    // ---- C02 (a), (d) ----
    if sel & p(2) != 0 {
      for x in out_after.iter() {
        if phys_after.contains(*x) {
          continue;
        }
        let justified = layout.mappings.iter().any(|m| m.to.contains(x) && phys_after.contains_all(&m.from));
        if !justified {
          out.push(v(2, "unjustified-output-key", format!("after {} the output holds {} which is neither physically held nor output of a mapping whose trigger keys are all held (physical {:?})", ev_text(input), key_name(*x), phys_after.names())));
        }
      }
      if !nonabs && is_press {
        // absorbing layouts: the mapping whose distinguished key is pressed in this step has
        // just fired and is in effect now; "in effect" for the justifying mapping is read in
        // the widest sense (all of its trigger keys are held)
        for (_t, o) in &pressed_tags {
          let m = info.m(*o);
          if !phys_after.contains_all(&m.from) {
            continue;
          }
          for t in &m.from {
            if out_after.contains(*t) && !layout.mappings.iter().any(|m2| m2.to.contains(t) && phys_after.contains_all(&m2.from)) {
              out.push(v(2, "trigger-key-not-consumed", format!("after {} trigger key {} of mapping {} (fired in this step) is down on the output although no mapping whose trigger keys are all held outputs it", ev_text(input), key_name(*t), mapping_text(m))));
            }
          }
        }
      }
      if nonabs {
        for &j in in_effect_after.iter() {
          for t in &info.m(j as usize).from {
            if out_after.contains(*t) && !in_effect_after.iter().any(|&j2| info.m(j2 as usize).to.contains(t)) {
              out.push(v(2, "trigger-key-not-consumed", format!("after {} trigger key {} of mapping {} (in effect) is down on the output although no mapping in effect outputs it", ev_text(input), key_name(*t), mapping_text(info.m(j as usize)))));
            }
          }
        }
      }
    }

    // ---- C03 ----
    if sel & p(3) != 0 && nonabs && is_press && acted_phys {
      let pressed_in_step = |x: KeyCode| events.iter().any(|e| *e == Event::Pressed(x));
      match fired_model {
        Some(i) => {
          let m = info.m(i);
          let expect_tags: Vec<KeyCode> = info.tag_of[i].into_iter().collect();
          let got_tags: Vec<KeyCode> = pressed_tags.iter().map(|(t, _)| *t).collect();
          let mut a = expect_tags.clone();
          a.sort();
          let mut b = got_tags.clone();
          b.sort();
          if a != b {
            out.push(v(3, "wrong-mapping-fired", format!("press {} with {:?} held: expected mapping {} (last listed satisfied) to fire; distinguished keys pressed: {:?}, expected {:?}", key_name(k), phys_before.names(), mapping_text(m), got_tags.iter().map(|t| key_name(*t)).collect::<Vec<_>>(), expect_tags.iter().map(|t| key_name(*t)).collect::<Vec<_>>())));
          }
          for d in &m.to {
            if !is_modifier(*d) {
              if !pressed_in_step(*d) {
                out.push(v(3, "output-key-not-pressed", format!("press {} fires {} but non-modifier output {} has no press event in the step [{}]", key_name(k), mapping_text(m), key_name(*d), evs_text(events))));
              }
            } else if !out_before.contains(*d) && !pressed_in_step(*d) {
              out.push(v(3, "output-modifier-not-pressed", format!("press {} fires {} but output modifier {} was neither down nor pressed in the step [{}]", key_name(k), mapping_text(m), key_name(*d), evs_text(events))));
            }
          }
          if matches!(m.repeat, Repeat::Normal) {
            for d in &m.to {
              if !out_after.contains(*d) {
                out.push(v(3, "output-not-held", format!("press {} fires normal-repeat {} but {} is not held at the end of the step [{}]", key_name(k), mapping_text(m), key_name(*d), evs_text(events))));
              }
            }
          }
        }
        None => {
          let mentioned = in_effect_before.iter().any(|&j| {
            let mj = info.m(j as usize);
            mj.from.contains(&k) || mj.to.contains(&k)
          });
          if mentioned {
            if !events.is_empty() {
              out.push(v(3, "mentioned-key-not-swallowed", format!("press {}: no mapping qualifies and a mapping in effect mentions it, yet the step emitted [{}]", key_name(k), evs_text(events))));
            }
          } else if events.last() != Some(&Event::Pressed(k)) {
            out.push(v(3, "unmapped-key-not-passed", format!("press {}: no mapping qualifies and none in effect mentions it, yet the last event of the step is not its press: [{}]", key_name(k), evs_text(events))));
          }
          if !pressed_tags.is_empty() {
            out.push(v(3, "wrong-mapping-fired", format!("press {}: no mapping qualifies yet distinguished key(s) {:?} were pressed", key_name(k), pressed_tags.iter().map(|(t, _)| key_name(*t)).collect::<Vec<_>>())));
          }
        }
      }
    }

    // ---- C07 ----
    if sel & p(7) != 0 {
      // which no-repeat mapping fired, as far as observable
      let mut fired_nr: Option<Option<usize>> = None; // Some(None) = some no-repeat mapping, unknown which
      if nonabs {
        if let Some(i) = fired_model {
          if is_norepeat(info.m(i)) {
            fired_nr = Some(Some(i));
          }
        }
      } else {
        for (_, o) in &pressed_tags {
          if is_norepeat(info.m(*o)) {
            fired_nr = Some(Some(*o));
          }
        }
        if fired_nr.is_none() {
          if let ResultingRepeat::Repeating { .. } = repeat {
            fired_nr = Some(None);
          }
        }
        // a firing that is certain although it cannot be observed: a new press of k, every
        // mapping on k whose trigger keys are all held is a no-repeat mapping, and none of
        // their other trigger keys can ever be absorbed (so the mapper cannot have forgotten
        // one): whichever of them the mapper takes, a no-repeat mapping fires
        if fired_nr.is_none() && is_press && acted_phys {
          let sat: Vec<usize> = info.by_final.get(&k).map(|v| v.iter().cloned().filter(|i| phys_after.contains_all(&info.m(*i).from)).collect()).unwrap_or_default();
          if !sat.is_empty() && sat.iter().all(|i| is_norepeat(info.m(*i)) && info.m(*i).from.iter().all(|t| *t == k || !info.absorbable.contains(*t))) {
            fired_nr = Some(if sat.len() == 1 { Some(sat[0]) } else { None });
          }
        }
      }
      if let Some(which) = fired_nr {
        if out_before.iter().any(|d| !is_modifier(*d)) {
          facts.norepeat_other_down += 1;
        }
        for d in out_after.iter() {
          if !is_modifier(*d) {
            out.push(v(7, "repeatable-key-held", format!("step {} fires a no-repeat mapping{} but non-modifier {} is still held afterwards [{}]", ev_text(input), which.map(|i| format!(" {}", mapping_text(info.m(i)))).unwrap_or_default(), key_name(*d), evs_text(events))));
          }
        }
        if let Some(i) = which {
          for d in &info.m(i).to {
            let pressed = events.iter().any(|e| *e == Event::Pressed(*d));
            let ok = if is_modifier(*d) { pressed || out_before.contains(*d) } else { pressed };
            if !ok {
              out.push(v(7, "norepeat-output-not-pressed", format!("step {} fires no-repeat {} but output {} was not pressed in the step [{}]", ev_text(input), mapping_text(info.m(i)), key_name(*d), evs_text(events))));
            }
          }
        }
      }
      if is_press {
        self.norepeat_window = fired_nr.is_some();
      } else if self.norepeat_window && !out_after.is_subset(&out_before) {
        out.push(v(7, "held-again-after-norepeat", format!("after a no-repeat firing, release step {} made a key held again: before {:?}, after {:?}", ev_text(input), out_before.names(), out_after.names())));
      }
    }

    // ---- C08 (a), (c), (d) and window bookkeeping ----
    if info.absorbing {
      if sel & p(8) != 0 {
        for w in &open_windows {
          for (t, o) in &pressed_tags {
            if info.m(*o).from.contains(&w.m) {
              let sig = if w.overwriters.contains(k) { "absorbing-trigger-slot-overwritten" } else { "" };
              out.push(PV { prop: 8, v: Violation::with_sig("absorbed-modifier-used", sig, format!("{} was absorbed at the press of {} and never pressed again, yet the press of {} fires {} which requires it", key_name(w.m), key_name(w.k), key_name(k), mapping_text(info.m(*o)))) });
            }
          }
        }
        // (c) immediate re-press of the same trigger key with the same keys held
        if let Some((rk, rt, rphys, stage)) = self.refire.clone() {
          if stage == 1 && is_press && acted_phys && k == rk && phys_after == rphys && !pressed_tags.iter().any(|(t, _)| *t == rt) {
            out.push(v(8, "same-trigger-does-not-refire", format!("{} fired the absorbing mapping owning {}, was released and pressed again with the same keys held {:?}, but {} was not pressed again [{}]", key_name(k), key_name(rt), rphys.names(), key_name(rt), evs_text(events))));
          }
        }
        // (d) M counts again: the physically last-listed satisfied mapping fires when none of
        // its trigger keys can still be absorbed
        // (only where the property speaks: the mapping requires a key that was absorbed and has
        // been released and pressed again, and it is the only mapping satisfied at this press,
        // so that no precedence rule is involved)
        if info.all_absorbing_tagged && is_press && acted_phys && info.satisfied_count(k, &phys_before) == 1 {
          if let Some(i) = fired_phys {
            let m = info.m(i);
            if let Some(t) = info.tag_of[i] {
              if m.from.iter().any(|x| self.recovered.contains(*x)) && !m.from.iter().any(|x| self.suspect.contains(*x)) && !pressed_tags.iter().any(|(pt, _)| *pt == t) {
                out.push(v(8, "modifier-does-not-count-again", format!("press {} with {:?} held: mapping {} is the last listed satisfied one and none of its trigger keys is absorbed, but {} was not pressed [{}]", key_name(k), phys_before.names(), mapping_text(m), key_name(t), evs_text(events))));
              }
            }
          }
        }
      }
      // refire bookkeeping
      let mut next_refire = None;
      if is_press && acted_phys {
        for (t, o) in &pressed_tags {
          if !info.m(*o).absorbing.is_empty() && *info.m(*o).from.last().unwrap() == k {
            next_refire = Some((k, *t, phys_after.clone(), 0u8));
          }
        }
      } else if !is_press && acted_phys {
        if let Some((rk, rt, rphys, 0)) = self.refire.clone() {
          if rk == k {
            next_refire = Some((rk, rt, rphys, 1u8));
          }
        }
      }
      self.refire = next_refire;
      // overwriters: an absorbing mapping physically satisfied at this press, inside a window
      // (any press step: an absorbing mapping can also fire at a physically duplicate press of
      // a key the mapper has forgotten)
      if is_press {
        let abs_sat = layout.mappings.iter().any(|m| !m.absorbing.is_empty() && *m.from.last().unwrap() == k && phys_after.contains_all(&m.from));
        if abs_sat {
          for w in self.windows.iter_mut() {
            if w.k != k {
              w.overwriters.insert(k);
            }
          }
        }
        // open windows
        for (_, o) in &pressed_tags {
          let m = info.m(*o);
          if *m.from.last().unwrap() != k {
            continue;
          }
          for am in &m.absorbing {
            if phys_after.contains(*am) {
              self.windows.retain(|w| w.m != *am);
              self.windows.push(Window { m: *am, k, overwriters: KeySet::new() });
              self.suspect.insert(*am);
              facts.windows_opened += 1;
            }
          }
        }
        self.windows.sort_by(|a, b| (a.m, a.k).cmp(&(b.m, b.k)));
      }
    }

    // ---- C09 ----
    if sel & p(9) != 0 {
      let ignored_phys = !acted_phys;
      if nonabs {
        if ignored_phys {
          facts.ignored_events += 1;
          if *repeat != ResultingRepeat::NoChange || !events.is_empty() {
            out.push(v(9, "ignored-event-changes-repeat", format!("ignored event {} (physical {:?}) returned repeat {:?} and events [{}]", ev_text(input), phys_before.names(), repeat, evs_text(events))));
          }
        } else {
          let expect = match fired_model.map(|i| &info.m(i).repeat) {
            Some(Repeat::Special { keys, delay_ms, interval_ms }) => ResultingRepeat::Repeating { keys: keys.clone(), delay_ms: *delay_ms, interval_ms: *interval_ms },
            _ => ResultingRepeat::Disabled,
          };
          if *repeat != expect {
            out.push(v(9, "wrong-repeat-request", format!("step {} (fired: {}) returned repeat {:?}, expected {:?}", ev_text(input), fired_model.map(|i| mapping_text(info.m(i))).unwrap_or("nothing".to_string()), repeat, expect)));
          }
        }
      } else {
        match repeat {
          ResultingRepeat::Repeating { keys, delay_ms, interval_ms } => {
            let ok = is_press && layout.mappings.iter().enumerate().any(|(i, m)| match &m.repeat {
              Repeat::Special { keys: mk, delay_ms: md, interval_ms: mi } => mk == keys && md == delay_ms && mi == interval_ms && *m.from.last().unwrap() == k && phys_after.contains_all(&m.from) && info.tag_of[i].map(|t| pressed_tags.iter().any(|(pt, _)| *pt == t)).unwrap_or(true),
              _ => false,
            });
            if !ok {
              out.push(v(9, "wrong-repeat-request", format!("step {} returned {:?} but no Special mapping with these parameters, this final key, a physically held trigger and a pressed distinguished key exists", ev_text(input), repeat)));
            }
          }
          ResultingRepeat::Disabled => {
            if !is_press && !phys_before.contains(k) {
              out.push(v(9, "ignored-event-changes-repeat", format!("release of {} which is not physically held returned Disabled", key_name(k))));
            }
            if is_press && phys_before.contains(k) && info.all_absorbing_tagged && !self.suspect.contains(k) {
              out.push(v(9, "ignored-event-changes-repeat", format!("duplicate press of {} (never absorbed) returned Disabled", key_name(k))));
            }
            for (t, o) in &pressed_tags {
              if let Repeat::Special { .. } = info.m(*o).repeat {
                if *info.m(*o).from.last().unwrap() == k {
                  out.push(v(9, "repeat-not-requested", format!("step {} pressed {} of Special mapping {} but returned Disabled", ev_text(input), key_name(*t), mapping_text(info.m(*o)))));
                }
              }
            }
          }
          ResultingRepeat::NoChange => {
            if is_press && !phys_before.contains(k) {
              out.push(v(9, "acted-event-no-change", format!("new press of {} returned NoChange", key_name(k))));
            }
            if !is_press && phys_before.contains(k) && info.all_absorbing_tagged && !self.suspect.contains(k) {
              out.push(v(9, "acted-event-no-change", format!("release of held key {} (never absorbed) returned NoChange", key_name(k))));
            }
            if !events.is_empty() {
              out.push(v(9, "ignored-event-emits", format!("step {} returned NoChange but emitted [{}]", ev_text(input), evs_text(events))));
            }
          }
        }
        if ignored_phys {
          facts.ignored_events += 1;
        }
      }
    }
    if let ResultingRepeat::Repeating { .. } = repeat {
      facts.special_fired += 1;
    }
    if (nonabs && fires_norepeat_model) || (!nonabs && (matches!(repeat, ResultingRepeat::Repeating { .. }) || pressed_tags.iter().any(|(_, o)| is_norepeat(info.m(*o))))) {
      facts.norepeat_fired += 1;
    }

    // ---- facts for the evidence ----
    let fired_any = fired_model.is_some() || !pressed_tags.is_empty() || (info.absorbing && fired_phys.is_some());
    if fired_any {
      facts.fired += 1;
      facts.pending_fire_since_rest = true;
      if phys_before.len() >= 2 || !in_effect_before.is_empty() {
        facts.chord_while_held += 1;
      }
    }
    if is_press && acted_phys && info.satisfied_count(k, &phys_before) >= 2 {
      facts.multi_satisfied_press += 1;
    }
    if phys_after.is_empty() && facts.pending_fire_since_rest {
      facts.rest_after_fire += 1;
      facts.pending_fire_since_rest = false;
    }
    if (!in_effect_after.is_empty() || (info.absorbing && fired_any)) && phys_after.len() >= 2 {
      facts.step_effect_2held += 1;
    }
    if in_effect_after.len() >= 2 {
      facts.two_in_effect += 1;
    }
    facts.max_in_effect = facts.max_in_effect.max(in_effect_after.len() as u32);

    self.phys = phys_after;
  }
}
