use std::time::Instant;
use tmverif::engine::{install_quiet_panic_hook, RunCfg, Tier};
use tmverif::evidence::finish;
use tmverif::findings::Findings;

fn usage() -> ! {
  eprintln!("usage: tmverif check <ID> <quick|thorough> | tmverif replay <ID> <file> | tmverif trace <ID> <mapper replay file>");
  std::process::exit(2)
}

fn prop_num(id: &str) -> u32 {
  id.trim_start_matches('C').parse().unwrap_or_else(|_| usage())
}

fn main() {
  let args: Vec<String> = std::env::args().collect();
  if args.len() >= 6 && args[1] == "c16-worker" {
    install_quiet_panic_hook();
    let code = tmverif::props_c16::worker_main(args[2].parse().unwrap_or(0), args[3].parse().unwrap_or(1), args[4].parse().unwrap_or(1), args[5] == "quick", args.get(6).cloned());
    std::process::exit(code);
  }
  if args.len() >= 3 && args[1] == "c16-replay-worker" {
    install_quiet_panic_hook();
    std::process::exit(tmverif::props_c16::replay_worker(&args[2], args.get(3).cloned()));
  }
  if args.len() < 4 {
    usage();
  }
  let seed: u64 = std::env::var("VERIF_SEED").ok().and_then(|s| s.trim().parse::<i64>().ok()).map(|x| x as u64).unwrap_or(1);
  let threads: usize = std::env::var("VERIF_THREADS").ok().and_then(|s| s.parse().ok()).unwrap_or_else(|| std::thread::available_parallelism().map(|n| n.get()).unwrap_or(4));
  install_quiet_panic_hook();
  let findings = Findings::load();
  let id = args[2].clone();
  let n = prop_num(&id);
  match args[1].as_str() {
    "check" => {
      let tier = match args[3].as_str() {
        "quick" => Tier::Quick,
        "thorough" => Tier::Thorough,
        _ => usage(),
      };
      let cfg = RunCfg { seed, tier, threads };
      let wd: u64 = std::env::var("VERIF_WATCHDOG_S").ok().and_then(|s| s.parse().ok()).unwrap_or(if tier == Tier::Quick { 1500 } else { 6 * 3600 });
      tmverif::engine::start_watchdog(wd);
      let t0 = Instant::now();
      let rep = match n {
        1 | 2 | 3 | 4 | 5 | 7 | 8 | 9 | 19 => tmverif::props_mapper::check(n, &cfg, &findings),
        6 => tmverif::props_c06::check(&cfg, &findings),
        10 | 11 | 12 => tmverif::props_loop::check_trace_prop(n, &cfg, &findings),
        20 => tmverif::props_loop::check_c20(&cfg, &findings),
        13 => tmverif::props_c13::check(&cfg, &findings),
        14 => tmverif::props_c14::check(&cfg, &findings),
        15 => tmverif::props_c15::check(&cfg, &findings),
        16 => tmverif::props_c16::check(&cfg, &findings),
        17 => tmverif::props_c17::check(&cfg, &findings),
        18 => tmverif::props_c18::check(&cfg, &findings),
        _ => {
          eprintln!("property {} has no check", id);
          std::process::exit(2);
        }
      };
      let code = finish(&cfg, &rep, &findings, t0.elapsed().as_secs_f64());
      std::process::exit(code);
    }
    "debug-siblings" => {
      // calibration aid: how often does the siblings family produce a given relation?
      use tmverif::layouts::*;
      use tmverif::keys::Mapping;
      let n: usize = args[3].parse().unwrap_or(10000);
      let mut h = 12345u64;
      let (mut rel_a, mut rel_b, mut loaded_n) = (0usize, 0usize, 0usize);
      for _ in 0..n {
        let tape: Vec<u32> = (0..300).map(|_| { h = tmverif::tape::splitmix64(h); (h >> 16) as u32 }).collect();
        let mut src = tmverif::tape::Src::new(&tape);
        let g = gen_family(&mut src, Family::Siblings, &LayoutOpts { allow_absorbing: true, max_alphabet: 8 });
        let ms = &g.layout.mappings;
        if through_loader(&g.layout).is_err() { continue; }
        loaded_n += 1;
        let nokey = |m: &Mapping| m.to.iter().all(|k| tmverif::kb::is_modifier(*k));
        // (1) [.., M, .., T1] -> [.. M .. x] absorbing M, x non-modifier last
        let one: Vec<&Mapping> = ms.iter().filter(|m| m.absorbing.iter().any(|a| m.to.contains(a)) && !nokey(m)).collect();
        // (2)/(3): same final, (2) no key + absorbing M2, (3) later, key-producing, absorbing M2, more trigger keys
        let mut pair = false;
        for (i, m2) in ms.iter().enumerate() {
          if !nokey(m2) || m2.absorbing.is_empty() { continue; }
          for m3 in ms.iter().skip(i + 1) {
            if m3.from.last() == m2.from.last() && !nokey(m3) && m3.absorbing.iter().any(|a| m2.absorbing.contains(a)) && m3.from.len() > m2.from.len() && m2.from.iter().all(|k| m3.from.contains(k)) {
              pair = true;
            }
          }
        }
        if pair { rel_b += 1; }
        if pair && one.iter().any(|m1| ms.iter().any(|m2| nokey(m2) && m2.from.last() != m1.from.last())) { rel_a += 1; }
      }
      println!("layouts {} loaded {} pair(2,3) {} with(1) {}", n, loaded_n, rel_b, rel_a);
      std::process::exit(0);
    }
    "fuzz-only" => {
      // development aid: the libFuzzer stage of a property alone (tmverif fuzz-only <ID> <runs>)
      let runs: u64 = args[3].parse().unwrap_or(1_600_000);
      let (target, max_len) = match n {
        10 | 11 | 12 => ("fz_loop", 900),
        14 => ("fz_loader", 1500),
        _ => ("fz_mapper", 700),
      };
      let t0 = Instant::now();
      let o = tmverif::fuzzstage::campaign(target, n, runs, seed, max_len, threads.min(8).max(1));
      println!("{} in {:.0}s", o.to_json(), t0.elapsed().as_secs_f64());
      if let Some((v, case)) = o.violation {
        println!("[{}] {}: {}\ncase: {}", id, v.kind, v.detail, case);
        std::process::exit(1);
      }
      std::process::exit(0);
    }
    "trace" => {
      if let Err(v) = tmverif::props_mapper::trace(&args[3]) {
        eprintln!("trace failed: {}", v.detail);
        std::process::exit(2);
      }
      std::process::exit(0);
    }
    "replay" => {
      let file = &args[3];
      let r = match n {
        1 | 2 | 3 | 4 | 5 | 7 | 8 | 9 | 19 => tmverif::props_mapper::replay(n, file, &findings),
        6 => tmverif::props_c06::replay(file),
        10 | 11 | 12 | 20 => tmverif::props_loop::replay(n, file),
        13 => tmverif::props_c13::replay(file),
        14 => tmverif::props_c14::replay(file),
        15 => tmverif::props_c15::replay(file),
        16 => tmverif::props_c16::replay(file),
        17 => tmverif::props_c17::replay(file),
        18 => tmverif::props_c18::replay(file),
        _ => {
          eprintln!("property {} has no replay", id);
          std::process::exit(2);
        }
      };
      match r {
        Ok(()) => {
          println!("[{}] replay {}: no violation", id, file);
          std::process::exit(0);
        }
        Err(v) if v.kind == "io" => {
          eprintln!("[{}] replay failed: {}", id, v.detail);
          std::process::exit(2);
        }
        Err(v) => {
          println!("[{}] {}: {}", id, v.kind, v.detail);
          println!("VIOLATION property={} replay={}", id, file);
          std::process::exit(1);
        }
      }
    }
    _ => usage(),
  }
}
