// Thorough tier: bounded libFuzzer campaigns (cargo-fuzz, nightly) over the targets in
// /verif/fuzz. Several processes with consecutive seeds run in parallel, each with a fresh
// corpus seeded from generated / golden inputs. A crash artifact is never reported directly:
// it is decoded again by the harness (fuzz_api::decode) and only a reproduced violation of the
// selected property becomes a VIOLATION with a readable replay file. If the fuzzing toolchain
// is unavailable the stage is skipped and the reason is recorded in the evidence.

use crate::engine::Violation;
use crate::findings::{verif_dir, verif_out_dir};
use serde_json::{json, Value};
use std::process::Command;

pub struct FuzzOutcome {
  pub target: String,
  pub processes: usize,
  pub runs: u64,
  pub coverage_edges: u64,
  pub features: u64,
  pub corpus: u64,
  pub skipped: Option<String>,
  pub unreproduced_artifacts: u64,
  pub violation: Option<(Violation, Value)>,
}

impl FuzzOutcome {
  pub fn to_json(&self) -> Value {
    json!({
      "engine": "libFuzzer (cargo-fuzz)",
      "target": self.target,
      "processes": self.processes,
      "runs": self.runs,
      "coverage_edges": self.coverage_edges,
      "features": self.features,
      "corpus_units": self.corpus,
      "skipped": self.skipped,
      "artifacts_not_reproduced": self.unreproduced_artifacts,
    })
  }
}

fn fuzz_dir() -> String {
  format!("{}/fuzz", verif_dir())
}

fn base_cmd() -> Command {
  let mut c = Command::new("cargo");
  c.arg("+nightly").arg("fuzz");
  // cargo-fuzz looks for a cargo project above a fuzz directory: run it from the harness crate
  c.current_dir(format!("{}/harness", verif_dir()));
  c.env("CARGO_NET_OFFLINE", "true");
  // cargo-fuzz appends its own flags to RUSTFLAGS; the guard must be in there too
  let mut rf = std::env::var("RUSTFLAGS").unwrap_or_default();
  if !rf.contains("ellbur_totalmapper_verif") {
    rf.push_str(" --cfg ellbur_totalmapper_verif -Awarnings");
  }
  c.env("RUSTFLAGS", rf.trim());
  if let Ok(r) = std::env::var("TM_REPO") {
    c.env("TM_REPO", r);
  }
  c
}

pub fn build(target: &str) -> Result<(), String> {
  let out = base_cmd().args(["build", "-s", "none", "--fuzz-dir", &fuzz_dir(), target]).output().map_err(|e| format!("cannot run cargo fuzz: {}", e))?;
  if !out.status.success() {
    let err = String::from_utf8_lossy(&out.stderr);
    return Err(format!("cargo +nightly fuzz build {} failed: {}", target, err.lines().rev().take(6).collect::<Vec<_>>().join(" | ")));
  }
  Ok(())
}

fn parse_stat(log: &str, key: &str) -> u64 {
  for l in log.lines().rev() {
    if let Some(rest) = l.strip_prefix(key) {
      if let Ok(v) = rest.trim().trim_start_matches(':').trim().parse::<u64>() {
        return v;
      }
    }
  }
  0
}

fn parse_last_cov(log: &str) -> (u64, u64, u64) {
  // "#12345 DONE cov: 1234 ft: 5678 corp: 321/45Kb ..."
  for l in log.lines().rev() {
    if l.contains(" cov: ") && l.contains(" ft: ") {
      let grab = |k: &str| -> u64 { l.split(k).nth(1).and_then(|r| r.trim().split(|c: char| !c.is_ascii_digit()).next().and_then(|x| x.parse().ok())).unwrap_or(0) };
      return (grab(" cov: "), grab(" ft: "), grab(" corp: "));
    }
  }
  (0, 0, 0)
}

pub fn campaign(target: &str, prop: u32, runs_total: u64, seed: u64, max_len: usize, processes: usize) -> FuzzOutcome {
  let mut outc = FuzzOutcome { target: target.to_string(), processes, runs: 0, coverage_edges: 0, features: 0, corpus: 0, skipped: None, unreproduced_artifacts: 0, violation: None };
  if std::env::var("VERIF_NO_FUZZ").is_ok() {
    outc.skipped = Some("VERIF_NO_FUZZ is set".to_string());
    return outc;
  }
  if let Err(e) = build(target) {
    outc.skipped = Some(e);
    return outc;
  }
  let run_root = format!("{}/fuzz-run/{}-C{:02}-{}", verif_out_dir(), target, prop, std::process::id());
  let _ = std::fs::remove_dir_all(&run_root);
  let seeds = crate::fuzz_api::seed_corpus(target, seed);
  let per = (runs_total / processes.max(1) as u64).max(1);
  let results: Vec<(String, Vec<Vec<u8>>)> = crate::engine::par_map(processes, processes, |i| {
    let corpus = format!("{}/p{}/corpus", run_root, i);
    let arts = format!("{}/p{}/artifacts/", run_root, i);
    let _ = std::fs::create_dir_all(&corpus);
    let _ = std::fs::create_dir_all(&arts);
    for (j, s) in seeds.iter().enumerate() {
      let _ = std::fs::write(format!("{}/seed-{:03}", corpus, j), s);
    }
    let mut c = base_cmd();
    c.env("TM_FZ_PROP", format!("C{:02}", prop));
    c.env("VERIF_DIR", verif_dir());
    // no sanitizer: the code under test is safe Rust and the oracle is semantic; ASan made the
    // targets 7x slower (measured 338 vs 2500 exec/s on fz_loader)
    c.args(["run", "-s", "none", "--fuzz-dir", &fuzz_dir(), target, &corpus, "--"]);
    c.arg(format!("-runs={}", per));
    c.arg(format!("-seed={}", (seed.wrapping_mul(1000) + i as u64 + 1) & 0x7fff_ffff));
    c.arg(format!("-max_len={}", max_len));
    c.arg("-len_control=0");
    c.arg("-timeout=60");
    c.arg("-rss_limit_mb=4096");
    c.arg("-print_final_stats=1");
    c.arg(format!("-artifact_prefix={}", arts));
    let out = c.output();
    let log = match out {
      Ok(o) => String::from_utf8_lossy(&o.stderr).to_string(),
      Err(e) => format!("cannot run cargo fuzz: {}", e),
    };
    let mut artifacts = Vec::new();
    if let Ok(rd) = std::fs::read_dir(&arts) {
      for f in rd.filter_map(|e| e.ok()) {
        if let Ok(b) = std::fs::read(f.path()) {
          artifacts.push(b);
        }
      }
    }
    (log, artifacts)
  });
  for (log, artifacts) in results {
    outc.runs += parse_stat(&log, "stat::number_of_executed_units");
    let (cov, ft, corp) = parse_last_cov(&log);
    outc.coverage_edges = outc.coverage_edges.max(cov);
    outc.features = outc.features.max(ft);
    outc.corpus += corp;
    for a in artifacts {
      match crate::fuzz_api::decode(target, &a, prop) {
        Some((v, case)) => {
          if outc.violation.is_none() {
            outc.violation = Some((v, case));
          }
        }
        None => outc.unreproduced_artifacts += 1,
      }
    }
  }
  let _ = std::fs::remove_dir_all(&run_root);
  outc
}

// Runs a campaign in the thorough tier and folds its outcome into the report.
pub fn stage(rep: &mut crate::evidence::Report, cfg: &crate::engine::RunCfg, target: &str, prop: u32, runs_total: u64, max_len: usize) {
  if cfg.tier != crate::engine::Tier::Thorough || !rep.violations.is_empty() {
    return;
  }
  let o = campaign(target, prop, runs_total, cfg.seed, max_len, cfg.threads.min(8).max(1));
  rep.extra.insert("fuzz".into(), o.to_json());
  rep.stats.count("libfuzzer-runs", o.runs);
  if let Some(reason) = &o.skipped {
    eprintln!("[{}] libFuzzer stage skipped: {}", rep.id, reason);
  }
  if let Some((v, case)) = o.violation {
    let path = crate::evidence::write_replay(&rep.id, &v, &case);
    rep.violations.push((v, path));
  }
}
