// Loop properties C10 (chunking independence), C11 (timer repeats), C12 (tablet mode),
// C20 (I/O failure stops the loop): trace monitors over scripted runs of the real
// per-device loop, with a twin mapper built from the same layout.

use crate::engine::*;
use crate::evidence::*;
use crate::findings::Findings;
use crate::history::*;
use crate::kb::*;
use crate::key_transforms::{Mapper, ResultingRepeat};
use crate::keys::{Event, KeyCode, Layout, Mapping, Repeat};
use crate::layouts::*;
use crate::loopsim::*;
use crate::remapping_loop::verif::{VDevice, VNext, VPoll, VTablet};
use crate::tape::Src;
use serde_json::{json, Value};
use std::time::{Duration, Instant};

#[derive(Clone, Debug)]
pub struct LoopCase {
  pub layout: Layout,
  pub script: Script,
  pub family: String,
}

impl LoopCase {
  pub fn to_json(&self) -> Value {
    json!({
      "family": self.family,
      "layout": serde_json::to_value(&self.layout).unwrap(),
      "layout_text": layout_text(&self.layout),
      "script": self.script.to_json(),
    })
  }
  pub fn from_json(v: &Value) -> Result<LoopCase, String> {
    let layout: Layout = serde_json::from_value(v.get("layout").cloned().ok_or("no layout")?).map_err(|e| e.to_string())?;
    let script = Script::from_json(v.get("script").ok_or("no script")?)?;
    Ok(LoopCase { layout, script, family: v.get("family").and_then(|f| f.as_str()).unwrap_or("replay").to_string() })
  }
}

#[derive(Clone, Debug, Default)]
pub struct LoopFacts {
  pub fresh_differentials: u32,
  pub multi_event_wakeups: u32,
  pub mid_drain: u32,
  pub timeouts: u32,
  pub chords: u32,
  pub chords_with_held_overlap: u32,
  pub on_with_output_or_repeat: u32,
  pub tablet_events: u32,
  pub sends: u32,
  pub kb_events_read: u32,
  pub interrupted: u32,
  pub spurious_timeouts: u32,
  pub ticks_after_ignored_event: u32,
}

fn call_text(c: &Call) -> String {
  match &c.kind {
    CallKind::Register => "register_poll".to_string(),
    CallKind::Poll { timeout, ret, .. } => format!("poll({:?}) -> {:?}", timeout, ret),
    CallKind::NextKb { ret } => format!("next_keyboard -> {}", match ret { Some(VNext::One(e)) => ev_text(e), Some(VNext::Busy) => "Busy".to_string(), Some(VNext::End) => "End".to_string(), None => "Err".to_string() }),
    CallKind::NextTab { ret } => format!("next_tablet -> {:?}", ret),
    CallKind::Send { evs } => format!("send [{}]", evs_text(evs)),
  }
}

pub fn trace_text(calls: &[Call]) -> Vec<String> {
  calls.iter().map(call_text).collect()
}

// What a repeat that is pending looks like to the oracle.
#[derive(Clone, Debug)]
struct Pending {
  keys: Vec<KeyCode>,
  delay_ms: i32,
  interval_ms: i32,
  fire_lo: Instant, // the firing instant lies in [fire_lo, fire_hi]
  fire_hi: Option<Instant>,
  chords_sent: u32,
}

pub const P10: u32 = 1 << 10;
pub const P11: u32 = 1 << 11;
pub const P12: u32 = 1 << 12;

// One pass over the trace with the twin mapper. Returns the first violation of a selected
// property. `sel` is a bit set of P10 | P11 | P12.
pub fn analyse(case: &LoopCase, result: &Result<(), String>, d: &Driver, sel: u32, facts: &mut LoopFacts) -> Result<(), (u32, Violation)> {
  let calls = &d.calls;
  let mut twin = Mapper::for_layout(&case.layout);
  let mut tablet_mode = false;
  let mut tablet_seen = false; // any tablet event read so far (C10 compares sends only before that)
  let mut out = KeySet::new(); // fold of every send
  let mut pending: Option<Pending> = None;
  let mut last_ignored = false;
  let mut i = 0usize;
  let n = calls.len();
  let mut reads_this_wakeup = 0u32;
  // step outputs the loop still owes: (events, the keyboard event, read after a tablet event?)
  let mut expected_q: std::collections::VecDeque<(Vec<Event>, Event, bool)> = std::collections::VecDeque::new();
  let fail = |prop: u32, kind: &str, detail: String| -> Result<(), (u32, Violation)> { Err((prop, Violation::new(kind, detail))) };
  while i < n {
    let c = &calls[i];
    match &c.kind {
      CallKind::Register => {
        i += 1;
      }
      CallKind::Poll { timeout, ret, lost_wakeup } => {
        reads_this_wakeup = 0;
        if sel & P10 != 0 {
          if let Some(l) = lost_wakeup {
            return fail(10, "waits-with-unread-events", format!("call {}: the loop went back to poll() while the {}", i, l));
          }
        }
        // C11 timing: while a repeat is pending the loop must ask for a timeout that aims at
        // fire + delay + n * interval
        if sel & P11 != 0 && !tablet_mode {
          if let Some(p) = &pending {
            if p.delay_ms >= 0 && p.interval_ms >= 0 {
              match timeout {
                None => {
                  return fail(11, "no-timeout-while-repeat-pending", format!("call {}: poll(None) although repeat {:?} every {} ms after {} ms is pending", i, p.keys.iter().map(|k| key_name(*k)).collect::<Vec<_>>(), p.interval_ms, p.delay_ms));
                }
                Some(t) => {
                  let prev_ret = if i > 0 { calls[i - 1].t_ret } else { c.t_entry };
                  let entry = c.t_entry;
                  let offset = Duration::from_millis(p.delay_ms as u64) + Duration::from_millis(p.interval_ms as u64) * p.chords_sent;
                  let dem_lo = p.fire_lo + offset;
                  let dem_hi = p.fire_hi.unwrap_or(entry) + offset;
                  let loop_lo = prev_ret + *t;
                  let loop_hi = entry + *t;
                  let intersects = loop_lo <= dem_hi && dem_lo <= loop_hi;
                  let floor_ok = *t <= Duration::from_millis(1) && dem_lo <= entry + Duration::from_millis(1);
                  if !intersects && !floor_ok {
                    let rel = |x: Instant| x.duration_since(p.fire_lo).as_secs_f64() * 1000.0;
                    return fail(
                      11,
                      "wrong-timer-deadline",
                      format!(
                        "call {}: poll timeout {:?} aims at a wake-up in [{:.3}, {:.3}] ms after the firing step, but delay {} ms + {} x interval {} ms demands [{:.3}, {:.3}] ms",
                        i, t, rel(loop_lo), rel(loop_hi), p.delay_ms, p.chords_sent, p.interval_ms, rel(dem_lo), rel(dem_hi)
                      ),
                    );
                  }
                }
              }
            }
          }
        }
        match ret {
          Some(VPoll::TimedOut) => {
            facts.timeouts += 1;
            if timeout.is_none() {
              facts.spurious_timeouts += 1;
            }
            // an immediately following send is a timer chord
            let next_is_send = expected_q.is_empty() && i + 1 < n && matches!(calls[i + 1].kind, CallKind::Send { .. }) && !calls[i + 1].failed;
            let chord_allowed = pending.is_some() && !tablet_mode;
            if next_is_send {
              let evs = match &calls[i + 1].kind {
                CallKind::Send { evs } => evs.clone(),
                _ => unreachable!(),
              };
              if sel & P12 != 0 && tablet_mode {
                return fail(12, "write-in-tablet-mode", format!("call {}: send [{}] after a time-out while tablet mode is on", i + 1, evs_text(&evs)));
              }
              if sel & P12 != 0 && tablet_seen && !chord_allowed {
                // "after it turns off mapping resumes as from a fresh start": a fresh start has no
                // repeat armed, so a timer chord needs a firing step since the last tablet event
                return fail(12, "timer-chord-survives-tablet-mode", format!("call {}: send [{}] after a time-out although no key event since the last tablet-mode change armed a repeat (a fresh start has none pending)", i + 1, evs_text(&evs)));
              }
              if sel & P11 != 0 {
                if !chord_allowed {
                  return fail(11, "chord-without-pending-repeat", format!("call {}: send [{}] after a time-out although no repeat is pending{}", i + 1, evs_text(&evs), if tablet_mode { " (tablet mode)" } else { "" }));
                }
                let p = pending.as_ref().unwrap();
                let to_press: Vec<KeyCode> = p.keys.iter().cloned().filter(|k| !out.contains(*k)).collect();
                let mut expect: Vec<Event> = to_press.iter().map(|k| Event::Pressed(*k)).collect();
                expect.extend(to_press.iter().rev().map(|k| Event::Released(*k)));
                if p.keys.iter().any(|k| out.contains(*k)) {
                  facts.chords_with_held_overlap += 1;
                }
                if evs != expect {
                  let mut after = out.clone();
                  fold_events(&mut after, &evs);
                  let sig = if after != out || evs.iter().any(|e| matches!(e, Event::Pressed(k) if out.contains(*k))) { "chord-disturbs-held-key" } else { "" };
                  return Err((11, Violation::with_sig("wrong-repeat-chord", sig, format!("call {}: repeat chord [{}] written while {:?} are held on the output; expected [{}] (keys not already held, pressed in listed order and released in reverse)", i + 1, evs_text(&evs), out.names(), evs_text(&expect)))));
                }
              }
              fold_events(&mut out, &evs);
              facts.chords += 1;
              facts.sends += 1;
              if last_ignored {
                facts.ticks_after_ignored_event += 1;
              }
              if let Some(p) = pending.as_mut() {
                p.chords_sent += 1;
              }
              i += 2;
              continue;
            } else if sel & P11 != 0 && chord_allowed && case.script.real_sleep {
              // the driver really slept until the requested deadline: the chord is due
              // (an empty chord - all keys already held, or no keys - needs no write)
              let p = pending.as_ref().unwrap();
              let to_press: Vec<KeyCode> = p.keys.iter().cloned().filter(|k| !out.contains(*k)).collect();
              let failed_next = i + 1 < n && calls[i + 1].failed;
              if !to_press.is_empty() && !failed_next && timeout.is_some() {
                return fail(11, "chord-missing", format!("call {}: the poll slept until the requested deadline and timed out, repeat {:?} is pending, but no chord was written", i, p.keys.iter().map(|k| key_name(*k)).collect::<Vec<_>>()));
              }
              if let Some(p) = pending.as_mut() {
                p.chords_sent += 1;
              }
            } else if chord_allowed {
              // immediate time-out without a chord: a loop that re-checks the clock may skip it;
              // (the real code sends on every time-out, so the schedule advances)
              let p = pending.as_ref().unwrap();
              let to_press: Vec<KeyCode> = p.keys.iter().cloned().filter(|k| !out.contains(*k)).collect();
              if to_press.is_empty() {
                if let Some(p) = pending.as_mut() {
                  p.chords_sent += 1;
                }
              } else {
                // schedule did not advance: stop checking deadlines for this repeat
                if let Some(p) = pending.as_mut() {
                  p.delay_ms = -1;
                }
              }
            }
          }
          Some(VPoll::Interrupted) => {
            facts.interrupted += 1;
          }
          _ => {}
        }
        i += 1;
      }
      CallKind::NextKb { ret } => {
        match ret {
          Some(VNext::One(ev)) => {
            facts.kb_events_read += 1;
            reads_this_wakeup += 1;
            if reads_this_wakeup == 2 {
              facts.multi_event_wakeups += 1;
            }
            if tablet_mode {
              // read but not mapped; any write is caught at the Send call
              i += 1;
              continue;
            }
            let r = twin.step(ev.clone());
            if !r.events.is_empty() {
              // the loop owes this write: exactly once, in order (not necessarily before the
              // next read - the property does not say so)
              expected_q.push_back((r.events.clone(), ev.clone(), tablet_seen));
            }
            // repeat bookkeeping for C11: the loop computes the deadline somewhere between the
            // return of this read and its next poll
            match r.repeat {
              ResultingRepeat::Repeating { keys, delay_ms, interval_ms } => {
                let fire_hi = calls[i + 1..].iter().find(|c| matches!(c.kind, CallKind::Poll { .. })).map(|c| c.t_entry);
                pending = Some(Pending { keys, delay_ms, interval_ms, fire_lo: c.t_ret, fire_hi, chords_sent: 0 });
                last_ignored = false;
              }
              ResultingRepeat::Disabled => {
                pending = None;
                last_ignored = false;
              }
              ResultingRepeat::NoChange => {
                if pending.is_some() {
                  last_ignored = true;
                }
              }
            }
            i += 1;
            continue;
          }
          Some(VNext::End) => {
            // nothing may follow, and nothing may still be owed
            if let Some((evs, ev, after_tablet)) = expected_q.front() {
              let chk = (sel & P10 != 0 && !*after_tablet) || (sel & P12 != 0 && *after_tablet);
              if chk && d.fail_at.is_none() {
                return fail(if *after_tablet { 12 } else { 10 }, "step-output-not-written", format!("call {}: the keyboard reported end of device but the output [{}] for keyboard event {} was never written", i, evs_text(evs), ev_text(ev)));
              }
            }
            if sel & P10 != 0 {
              if i + 1 < n {
                return fail(10, "call-after-end-of-device", format!("call {}: after next_keyboard returned End the loop still called {}", i + 1, call_text(&calls[i + 1])));
              }
              if d.fail_at.is_none() {
                if let Err(e) = result {
                  return fail(10, "error-at-end-of-device", format!("the loop returned Err({}) after the keyboard reported end of device", e));
                }
              }
            }
            i += 1;
          }
          _ => {
            i += 1;
          }
        }
      }
      CallKind::NextTab { ret } => {
        match ret {
          Some(VNext::One(t)) => {
            facts.tablet_events += 1;
            tablet_seen = true;
            let on = *t == VTablet::On;
            if on && (!out.is_empty() || pending.is_some()) {
              facts.on_with_output_or_repeat += 1;
            }
            if let Some((evs, ev, after_tablet)) = expected_q.front() {
              let chk = (sel & P10 != 0 && !*after_tablet) || (sel & P12 != 0 && *after_tablet);
              if chk {
                return fail(if *after_tablet { 12 } else { 10 }, "step-output-not-written", format!("call {}: a tablet-mode event is handled although the output [{}] for keyboard event {} has not been written", i, evs_text(evs), ev_text(ev)));
              }
            }
            expected_q.clear();
            // the release batch: the run of writes directly after the tablet event (the property
            // says "released immediately", not "in one write")
            let mut j = i + 1;
            let mut next_failed = false;
            while j < n {
              match &calls[j].kind {
                CallKind::Send { evs } => {
                  if calls[j].failed {
                    next_failed = true;
                    break;
                  }
                  if sel & P12 != 0 {
                    if tablet_mode {
                      return fail(12, "write-in-tablet-mode", format!("call {}: send [{}] at a tablet-mode event while tablet mode is already on", j, evs_text(evs)));
                    }
                    if evs.iter().any(|e| matches!(e, Event::Pressed(_))) {
                      return fail(12, "press-at-tablet-switch", format!("call {}: the batch written at the tablet-mode event contains a press: [{}]", j, evs_text(evs)));
                    }
                  }
                  fold_events(&mut out, evs);
                  facts.sends += 1;
                  j += 1;
                }
                _ => {
                  if calls[j].failed {
                    next_failed = true;
                  }
                  break;
                }
              }
            }
            if sel & P12 != 0 && !out.is_empty() && !next_failed && !(j >= n && result.is_err()) {
              return fail(12, "keys-held-after-tablet-switch", format!("call {}: after tablet mode turned {} the output still holds {:?}", i, if on { "on" } else { "off" }, out.names()));
            }
            tablet_mode = on;
            pending = None;
            last_ignored = false;
            twin = Mapper::for_layout(&case.layout);
            i = j;
            continue;
          }
          _ => {
            i += 1;
          }
        }
      }
      CallKind::Send { evs } => {
        // a write that is neither a timer chord nor a tablet release batch: it must be the next
        // owed step output
        if !c.failed {
          if tablet_mode {
            if sel & P12 != 0 {
              return fail(12, "write-in-tablet-mode", format!("call {}: send [{}] while tablet mode is on", i, evs_text(evs)));
            }
          } else {
            match expected_q.pop_front() {
              Some((expect, ev, after_tablet)) => {
                let chk = (sel & P10 != 0 && !after_tablet) || (sel & P12 != 0 && after_tablet);
                if chk && *evs != expect {
                  return fail(if after_tablet { 12 } else { 10 }, "wrong-output-for-step", format!("call {}: send [{}], but the next owed output is [{}] for keyboard event {}{}", i, evs_text(evs), evs_text(&expect), ev_text(&ev), if after_tablet { " (fresh mapper since the last tablet-mode change)" } else { "" }));
                }
              }
              None => {
                let prop = if sel & P11 != 0 { 11 } else if sel & P10 != 0 && !tablet_seen { 10 } else if sel & P12 != 0 && tablet_seen { 12 } else { 0 };
                if prop != 0 {
                  return fail(prop, "unattributed-write", format!("call {}: send [{}] is neither an owed step output, nor a tablet release batch, nor a timer chord", i, evs_text(evs)));
                }
              }
            }
          }
          fold_events(&mut out, evs);
          facts.sends += 1;
        }
        i += 1;
      }
    }
  }
  if d.fail_at.is_none() && result.is_ok() {
    if let Some((evs, ev, after_tablet)) = expected_q.front() {
      let chk = (sel & P10 != 0 && !*after_tablet) || (sel & P12 != 0 && *after_tablet);
      if chk {
        return fail(if *after_tablet { 12 } else { 10 }, "step-output-not-written", format!("the loop returned but the output [{}] for keyboard event {} was never written", evs_text(evs), ev_text(ev)));
      }
    }
  }
  if sel & P10 != 0 && d.fail_at.is_none() {
    if !d.end_returned {
      return fail(10, "stopped-early", format!("the loop returned {:?} before the keyboard reported end of device", result));
    }
  }
  Ok(())
}

pub fn gen_loop_case(src: &mut Src, which: u32, quick: bool) -> Option<LoopCase> {
  let (fam, tablet_percent, timeout_percent) = match which {
    10 => (match src.weighted(&[28, 20, 16, 16, 20]) { 0 => Family::General, 1 => Family::RepeatDense, 2 => Family::Tagged, 3 => Family::AbsorbingDense, _ => Family::Siblings }, if src.chance(35) { 12 } else { 0 }, 12),
    11 => (Family::RepeatDense, if src.chance(45) { 10 } else { 0 }, 52),
    12 => (match src.weighted(&[34, 26, 25, 15]) { 0 => Family::RepeatDense, 1 => Family::General, 2 => Family::AbsorbingDense, _ => Family::Siblings }, 30, 20),
    _ => (match src.weighted(&[34, 34, 17, 15]) { 0 => Family::General, 1 => Family::RepeatDense, 2 => Family::AbsorbingDense, _ => Family::Siblings }, 15, 20),
  };
  let opts = LayoutOpts { allow_absorbing: true, max_alphabet: 8 };
  let fam = if which != 11 && src.chance(4) { Family::Wide } else { fam };
  let mut g = loaded(gen_family(src, fam, &opts))?;
  let real_sleep = which == 11 && src.chance(if quick { 4 } else { 6 });
  let repeat_heavy = which == 11 || (which == 12 && src.chance(45));
  if repeat_heavy {
    // chord keys overlapping held keys: redraw some chords from the alphabet (pass-through
    // modifiers, outputs of other mappings, foreign keys)
    let mut pool: Vec<KeyCode> = g.alphabet.clone();
    for m in &g.layout.mappings {
      for k in &m.to {
        if !pool.contains(k) {
          pool.push(*k);
        }
      }
    }
    pool.push(KeyCode::F1);
    let mut any_special = false;
    for m in g.layout.mappings.iter_mut() {
      if let Repeat::Special { keys, delay_ms, interval_ms } = &mut m.repeat {
        any_special = true;
        if src.chance(20) {
          m.to = vec![];
        }
        if src.chance(60) {
          let n = src.below(4);
          *keys = src.distinct(&pool, n);
        }
        if real_sleep {
          *delay_ms = src.below(4) as i32;
          *interval_ms = 1 + src.below(3) as i32;
        } else {
          *delay_ms = src.below(401) as i32;
          *interval_ms = 1 + src.below(100) as i32;
        }
      }
    }
    if !any_special {
      // make the first mapping Special so the case is about repeats
      if let Some(m) = g.layout.mappings.first_mut() {
        let n = src.below(3);
        m.repeat = Repeat::Special { keys: src.distinct(&pool, n), delay_ms: if real_sleep { 2 } else { 50 + src.below(300) as i32 }, interval_ms: if real_sleep { 1 } else { 5 + src.below(60) as i32 } };
      }
    }
    g = loaded(g)?;
  }
  let hist = HistOpts { max_events: if src.chance(12) { 120 } else if quick { 30 } else { 80 }, max_held: 5, raw_percent: 7, release_all_percent: 0, marathon_taps: 0 };
  // scale diversity: a crowd of held keys (steps and release batches of 17+ events), and bursts
  // far longer than any plausible per-wake-up bound (sizes around 256 and 512)
  let crowd = if src.chance(4) { add_crowd(src, &mut g) } else { vec![] };
  let mega: Option<usize> = if src.chance(2) { Some(src.pick(&[255usize, 256, 257, 258, 300, 511, 512, 513, 600])) } else { None };
  let hist = if let Some(m) = mega { HistOpts { max_events: m + 200, ..hist } } else { hist };
  let mut kb: Vec<Event> = gen_history_mixed(src, &g.layout, &g.alphabet, &hist, &crowd).into_iter().filter_map(|s| match s { Step::Ev(e) => Some(e), _ => None }).collect();
  if let Some(m) = mega {
    // pad with taps so that the burst is really that long
    let mut i = 0;
    while kb.len() < m + 8 {
      let k = g.alphabet[i % g.alphabet.len()];
      i += 1;
      kb.push(Event::Pressed(k));
      kb.push(Event::Released(k));
    }
  }
  if repeat_heavy && src.chance(75) {
    // make a Special mapping fire by construction: press its trigger keys somewhere in the history
    let specials: Vec<Mapping> = g.layout.mappings.iter().filter(|m| matches!(m.repeat, Repeat::Special { .. })).cloned().collect();
    if !specials.is_empty() {
      let m = src.pick(&specials);
      let at = if src.chance(35) { kb.len() } else { src.below(kb.len() + 1) };
      let mut held: Vec<KeyCode> = Vec::new();
      for e in &kb[..at] {
        match e {
          Event::Pressed(k) => {
            if !held.contains(k) {
              held.push(*k);
            }
          }
          Event::Released(k) => held.retain(|x| x != k),
        }
      }
      let mut ins: Vec<Event> = Vec::new();
      let fk = *m.from.last().unwrap();
      if held.contains(&fk) {
        ins.push(Event::Released(fk));
      }
      for t in &m.from {
        if *t == fk || !held.contains(t) {
          ins.push(Event::Pressed(*t));
        }
      }
      let n_ins = ins.len();
      for (i, e) in ins.into_iter().enumerate() {
        kb.insert(at + i, e);
      }
      // and now and then the same chord once more a little later (release and press again)
      if src.chance(50) {
        let at2 = (at + n_ins + src.below(4)).min(kb.len());
        kb.insert(at2, Event::Released(fk));
        kb.insert(at2 + 1, Event::Pressed(fk));
      }
    }
  }
  if repeat_heavy && src.chance(35) {
    // episodes: a Special mapping fires, ticks, something happens in between (tablet events -
    // also redundant ones -, another key, a duplicate press), the same or another Special
    // mapping fires again, more ticks
    let specials: Vec<Mapping> = g.layout.mappings.iter().filter(|m| matches!(m.repeat, Repeat::Special { .. })).cloned().collect();
    if !specials.is_empty() {
      let mut kb: Vec<Event> = Vec::new();
      let mut actions: Vec<Action> = Vec::new();
      let arrive = |n: usize, tablet: Vec<bool>| Action::Arrive { kb: n, tablet, tablet_first: true, mid: vec![], spurious_kb: false };
      // prefix: a few keys go down first (held modifiers that chords may overlap)
      let n_pre = src.below(4);
      let pre = src.distinct(&g.alphabet, n_pre);
      for k in &pre {
        kb.push(Event::Pressed(*k));
      }
      if n_pre > 0 {
        actions.push(arrive(n_pre, vec![]));
      }
      let mut held: Vec<KeyCode> = pre.clone();
      let m1 = src.pick(&specials);
      let episodes = src.range(2, 3);
      let mut m = m1.clone();
      for ep in 0..episodes {
        let fk = *m.from.last().unwrap();
        let mut n = 0;
        if held.contains(&fk) && src.chance(70) {
          kb.push(Event::Released(fk));
          held.retain(|x| *x != fk);
          n += 1;
        }
        for t in &m.from {
          if *t == fk || !held.contains(t) {
            kb.push(Event::Pressed(*t));
            if !held.contains(t) {
              held.push(*t);
            }
            n += 1;
          }
        }
        actions.push(arrive(n, vec![]));
        for _ in 0..src.range(1, 4) {
          actions.push(Action::TimedOut);
        }
        if ep + 1 < episodes {
          match src.weighted(&[15, 25, 15, 10, 15, 20]) {
            0 => {}
            1 => actions.push(arrive(0, vec![false])),
            2 => actions.push(arrive(0, vec![true, false])),
            3 => {
              actions.push(arrive(0, vec![true]));
              actions.push(arrive(0, vec![false]));
            }
            4 => {
              let k = src.pick(&g.alphabet);
              kb.push(Event::Pressed(k));
              kb.push(Event::Released(k));
              held.retain(|x| *x != k);
              actions.push(arrive(2, vec![]));
            }
            _ => {
              if !held.is_empty() {
                let k = src.pick(&held);
                kb.push(Event::Pressed(k));
                actions.push(arrive(1, vec![]));
              }
            }
          }
          if src.chance(30) {
            m = src.pick(&specials);
          }
        }
      }
      let script = Script { kb_events: kb, actions, end_in_same_drain: src.chance(30), real_sleep: false, stall: None };
      return Some(LoopCase { layout: g.layout, script, family: format!("{}+episodes", g.family) });
    }
  }
  let so = SchedOpts { tablet_percent, timeout_percent, allow_interrupt: true, max_batch: if which == 11 && src.chance(70) { 2 } else { 64 } };
  let mut script = gen_script(src, kb, &so, real_sleep);
  resync_after_interruptions(src, &mut script);
  if let Some(m) = mega {
    // one notification carries the first m (or more) events
    let total = script.kb_events.len();
    let first = m.min(total);
    let mut actions = vec![Action::Arrive { kb: first, tablet: vec![], tablet_first: false, mid: vec![], spurious_kb: false }];
    if total > first {
      actions.push(Action::Arrive { kb: total - first, tablet: vec![], tablet_first: false, mid: vec![], spurious_kb: false });
    }
    if src.chance(50) {
      actions.push(Action::TimedOut);
    }
    script.actions = actions;
  }
  Some(LoopCase { layout: g.layout, script, family: g.family })
}

// After an interruption (signal, resume) a keyboard may announce keys that are still down once
// more: now and then the arrival that follows an interruption starts with presses of one or
// two keys that are physically held at that point. Duplicate presses are part of "every key
// history"; here they come exactly where a loop might think it can take a short cut.
fn resync_after_interruptions(src: &mut Src, script: &mut Script) {
  let mut consumed = 0usize; // keyboard events delivered by the actions so far
  let mut after_interrupt = false;
  let mut i = 0;
  while i < script.actions.len() {
    match &mut script.actions[i] {
      Action::Interrupted => after_interrupt = true,
      Action::TimedOut => {}
      Action::Arrive { kb, mid, .. } => {
        if after_interrupt && *kb > 0 && src.chance(35) {
          let mut held: Vec<KeyCode> = Vec::new();
          for e in &script.kb_events[..consumed.min(script.kb_events.len())] {
            match e {
              Event::Pressed(k) => {
                if !held.contains(k) {
                  held.push(*k);
                }
              }
              Event::Released(k) => held.retain(|x| x != k),
            }
          }
          if !held.is_empty() {
            let n = src.range(1, 2).min(held.len());
            let again = src.distinct(&held, n);
            for (j, k) in again.into_iter().enumerate() {
              script.kb_events.insert(consumed + j, Event::Pressed(k));
              *kb += 1;
            }
          }
        }
        if *kb > 0 {
          after_interrupt = false;
        }
        consumed += *kb + mid.iter().map(|(_, m)| *m).sum::<usize>();
      }
    }
    i += 1;
  }
}

// Slow-time variants of a generated case: a *storm* (two interruptions in a row: the real loop
// backs off with a sleep of 4 s), a *stall* (one poll - whatever it reports - returns late by
// 60 ms .. 5.3 s, as after a stopped process or a suspend), or both. These cases really take
// seconds; they are run on one thread each, hundreds at a time.
pub fn make_slow(src: &mut Src, c: &mut LoopCase, quick: bool) -> &'static str {
  let mode = src.weighted(&[40, 40, 20]);
  if mode != 0 {
    c.script.actions.retain(|a| !matches!(a, Action::Interrupted));
    let arrivals: Vec<usize> = c.script.actions.iter().enumerate().filter(|(_, a)| matches!(a, Action::Arrive { .. })).map(|(i, _)| i + 1).collect();
    let at = if !arrivals.is_empty() && src.chance(50) { src.pick(&arrivals) } else { src.below(c.script.actions.len() + 1) };
    c.script.actions.insert(at, Action::Interrupted);
    c.script.actions.insert(at, Action::Interrupted);
  }
  if mode != 1 && !c.script.actions.is_empty() {
    let idx = src.below(c.script.actions.len());
    let ms = if quick { src.pick(&[60u64, 150, 400, 1_200, 2_500, 5_300]) } else { src.pick(&[60u64, 150, 400, 1_200, 2_500, 5_300, 10_500]) };
    c.script.stall = Some((idx, ms));
  }
  c.family = format!("{}+{}", c.family, ["stall", "storm", "storm+stall"][mode]);
  ["stall", "storm", "storm+stall"][mode]
}

fn record(which: u32, c: &LoopCase, f: &LoopFacts, stats: &mut Stats) {
  stats.label(&format!("family:{}", c.family));
  if f.multi_event_wakeups > 0 {
    stats.label("wake-up-with-2+-events");
  }
  if f.chords > 0 {
    stats.label("timer-chord-written");
  }
  if f.chords >= 3 {
    stats.label("3+-chords");
  }
  if f.chords_with_held_overlap > 0 {
    stats.label("chord-overlaps-held-key");
  }
  if f.tablet_events > 0 {
    stats.label("tablet-event");
  }
  if f.on_with_output_or_repeat > 0 {
    stats.label("tablet-on-with-keys-held-or-repeat-pending");
  }
  if f.interrupted > 0 {
    stats.label("interrupted");
  }
  if f.fresh_differentials > 0 {
    stats.label("fresh-start-differential");
  }
  if f.spurious_timeouts > 0 {
    stats.label("spurious-time-out");
  }
  if f.ticks_after_ignored_event > 0 {
    stats.label("tick-after-ignored-event");
  }
  if c.script.real_sleep {
    stats.label("real-sleep");
  }
  if c.script.end_in_same_drain {
    stats.label("end-in-same-drain");
  }
  stats.count("keyboard-events-read", f.kb_events_read as u64);
  stats.count("multi-event-wake-ups", f.multi_event_wakeups as u64);
  stats.count("chords", f.chords as u64);
  stats.count("sends", f.sends as u64);
  let nt = match which {
    10 => f.multi_event_wakeups > 0,
    11 => f.chords > 0,
    12 => f.on_with_output_or_repeat > 0,
    _ => false,
  };
  if nt {
    stats.label("non-trivial");
    stats.nontrivial_case(hash64(&(layout_text(&c.layout), c.script.to_json().to_string())));
    if stats.want_nontrivial_sample() && c.script.kb_events.len() <= 14 {
      stats.nontrivial_samples.push(c.to_json());
    }
  } else if stats.want_sample() && c.script.kb_events.len() <= 8 {
    stats.samples.push(c.to_json());
  }
}

// C12, "after it turns off mapping resumes as from a fresh start", taken literally: when the
// last tablet event of a run is an Off that arrives alone (nothing unread, nothing else
// reported in that wake-up), the rest of the script is also given to a *fresh* run of the real
// loop. What the two runs write afterwards must agree: the same key events outside timer
// chords, and the same chord at every time-out at which both wrote one (whether a chord is
// written at a given time-out may depend on the clock, its content may not).
fn sends_after(calls: &[Call], snaps: &[PollSnap], from_call: usize, action_offset: usize) -> (Vec<Event>, std::collections::BTreeMap<usize, Vec<Event>>) {
  let mut plain: Vec<Event> = Vec::new();
  let mut chords: std::collections::BTreeMap<usize, Vec<Event>> = std::collections::BTreeMap::new();
  let mut after_timeout: Option<usize> = None;
  for (i, c) in calls.iter().enumerate() {
    match &c.kind {
      CallKind::Poll { ret, .. } => {
        after_timeout = match ret {
          Some(VPoll::TimedOut) => snaps.iter().find(|s| s.call_idx == i).and_then(|s| s.action_idx).map(|a| a + action_offset),
          _ => None,
        };
      }
      CallKind::NextKb { .. } | CallKind::NextTab { .. } => after_timeout = None,
      CallKind::Send { evs } if i >= from_call && !c.failed => match after_timeout {
        Some(a) => chords.entry(a).or_default().extend(evs.iter().cloned()),
        None => plain.extend(evs.iter().cloned()),
      },
      _ => {}
    }
  }
  (plain, chords)
}

pub fn fresh_start_differential(c: &LoopCase, d: &Driver) -> Result<bool, Violation> {
  if c.script.real_sleep || c.script.stall.is_some() {
    return Ok(false);
  }
  let ti = match d.calls.iter().rposition(|c| matches!(&c.kind, CallKind::NextTab { ret: Some(VNext::One(_)) })) {
    Some(i) => i,
    None => return Ok(false),
  };
  if !matches!(&d.calls[ti].kind, CallKind::NextTab { ret: Some(VNext::One(VTablet::Off)) }) {
    return Ok(false);
  }
  let snap = match d.poll_snaps.iter().rev().find(|s| s.call_idx < ti) {
    Some(s) => s.clone(),
    None => return Ok(false),
  };
  let alone = matches!(&d.calls[snap.call_idx].kind, CallKind::Poll { ret: Some(VPoll::DeviceEvent(devs)), .. } if devs.len() == 1 && matches!(devs[0], VDevice::Tablet));
  if !alone || snap.tab_queue_len != 1 || snap.kb_queue_len != 0 || snap.pending_mid || snap.action_idx.is_none() {
    return Ok(false);
  }
  if c.script.actions[snap.next_action..].iter().any(|a| matches!(a, Action::Interrupted)) {
    return Ok(false);
  }
  // the release batch of the Off event itself: the sends directly after it
  let mut from_call = ti + 1;
  while from_call < d.calls.len() && matches!(d.calls[from_call].kind, CallKind::Send { .. }) {
    from_call += 1;
  }
  let suffix = Script { kb_events: c.script.kb_events[snap.kb_next..].to_vec(), actions: c.script.actions[snap.next_action..].to_vec(), end_in_same_drain: c.script.end_in_same_drain, real_sleep: false, stall: None };
  let (_r2, d2) = run_loop(&c.layout, &suffix, None);
  let (plain1, chords1) = sends_after(&d.calls, &d.poll_snaps, from_call, 0);
  let (plain2, chords2) = sends_after(&d2.calls, &d2.poll_snaps, 0, snap.next_action);
  if plain1 != plain2 {
    return Err(Violation::new(
      "not-a-fresh-start",
      format!("after the last tablet-mode event (off, call {}) the loop wrote key events [{}]; a fresh run of the loop on the rest of the script writes [{}]", ti + 1, evs_text(&plain1), evs_text(&plain2)),
    ));
  }
  for (a, ch1) in &chords1 {
    if let Some(ch2) = chords2.get(a) {
      if ch1 != ch2 {
        return Err(Violation::new(
          "not-a-fresh-start",
          format!("after the last tablet-mode event (off, call {}) the time-out of action {} wrote the repeat chord [{}]; a fresh run of the loop on the rest of the script writes [{}] there", ti + 1, a, evs_text(ch1), evs_text(ch2)),
        ));
      }
    }
  }
  Ok(true)
}

pub fn run_loop_case(which: u32, c: &LoopCase, facts: &mut LoopFacts) -> Result<(), Violation> {
  let (res, d) = run_loop(&c.layout, &c.script, None);
  let sel = 1u32 << which;
  match analyse(c, &res, &d, sel, facts) {
    Ok(()) if which == 12 => match fresh_start_differential(c, &d) {
      Ok(applied) => {
        if applied {
          facts.fresh_differentials += 1;
        }
        Ok(())
      }
      Err(mut v) => {
        v.detail = format!("{} | trace: {}", v.detail, trace_text(&d.calls).join("; "));
        Err(v)
      }
    },
    Ok(()) => Ok(()),
    Err((_p, mut v)) => {
      v.detail = format!("{} | trace: {}", v.detail, trace_text(&d.calls).join("; "));
      Err(v)
    }
  }
}

fn minimise_loop(which: u32, case: &LoopCase, kind: &str, fails: &dyn Fn(&LoopCase) -> bool) -> LoopCase {
  let mut best = case.clone();
  if !fails(&best) {
    return best;
  }
  let mut changed = true;
  let mut rounds = 0;
  let dl = Deadline::after_secs(60);
  while changed && rounds < 30 && !dl.passed() {
    changed = false;
    rounds += 1;
    // drop keyboard events (adjusting the arrival that carried them)
    let mut idx = best.script.kb_events.len();
    while idx > 0 && !dl.passed() {
      idx -= 1;
      let mut c = best.clone();
      c.script.kb_events.remove(idx);
      // shrink the batch that contained event idx
      let mut pos = 0usize;
      for a in c.script.actions.iter_mut() {
        if let Action::Arrive { kb, mid, .. } = a {
          let total = *kb + mid.iter().map(|(_, m)| *m).sum::<usize>();
          if idx < pos + total {
            if *kb > 0 && idx < pos + *kb {
              *kb -= 1;
            } else if let Some(m) = mid.iter_mut().find(|(_, m)| *m > 0) {
              m.1 -= 1;
            }
            break;
          }
          pos += total;
        }
      }
      if fails(&c) {
        best = c;
        changed = true;
      }
    }
    // drop actions
    let mut ai = best.script.actions.len();
    while ai > 0 && !dl.passed() {
      ai -= 1;
      let mut c = best.clone();
      let removed = c.script.actions.remove(ai);
      if let Action::Arrive { kb, mid, .. } = &removed {
        // move its events to the next arrival so the history is preserved
        let total = *kb + mid.iter().map(|(_, m)| *m).sum::<usize>();
        if total > 0 {
          let mut moved = false;
          for a in c.script.actions.iter_mut().skip(ai) {
            if let Action::Arrive { kb, .. } = a {
              *kb += total;
              moved = true;
              break;
            }
          }
          if !moved {
            continue;
          }
        }
      }
      if fails(&c) {
        best = c;
        changed = true;
      }
    }
    // simplify arrivals
    for ai in 0..best.script.actions.len() {
      if let Action::Arrive { kb, tablet, tablet_first, mid, spurious_kb } = best.script.actions[ai].clone() {
        if !tablet.is_empty() {
          for ti in (0..tablet.len()).rev() {
            let mut t2 = tablet.clone();
            t2.remove(ti);
            let mut c = best.clone();
            c.script.actions[ai] = Action::Arrive { kb, tablet: t2, tablet_first, mid: mid.clone(), spurious_kb };
            if fails(&c) {
              best = c;
              changed = true;
              break;
            }
          }
        }
        if !mid.is_empty() {
          let extra: usize = mid.iter().map(|(_, m)| *m).sum();
          let mut c = best.clone();
          c.script.actions[ai] = Action::Arrive { kb: kb + extra, tablet: tablet.clone(), tablet_first, mid: vec![], spurious_kb };
          if fails(&c) {
            best = c;
            changed = true;
          }
        }
      }
    }
    // drop mappings
    let mut mi = best.layout.mappings.len();
    while mi > 0 && !dl.passed() {
      mi -= 1;
      let mut c = best.clone();
      c.layout.mappings.remove(mi);
      if fails(&c) {
        best = c;
        changed = true;
      }
    }
    if best.script.end_in_same_drain {
      let mut c = best.clone();
      c.script.end_in_same_drain = false;
      if fails(&c) {
        best = c;
        changed = true;
      }
    }
  }
  best
}

fn replay_regressions(which: u32, name: &str, rep: &mut Report, run: &dyn Fn(&LoopCase) -> Result<(), Violation>) -> bool {
  let reg_dir = format!("{}/regressions/{}", crate::findings::verif_dir(), name);
  if std::env::var("VERIF_NO_REGRESSIONS").is_ok() {
    return false;
  }
  if let Ok(rd) = std::fs::read_dir(&reg_dir) {
    let mut files: Vec<_> = rd.filter_map(|e| e.ok()).map(|e| e.path()).filter(|p| p.extension().map(|x| x == "json").unwrap_or(false)).collect();
    files.sort();
    for f in files {
      if let Ok(v) = serde_json::from_str::<Value>(&std::fs::read_to_string(&f).unwrap_or_default()) {
        if let Ok(c) = LoopCase::from_json(v.get("case").unwrap_or(&v)) {
          rep.stats.evaluations += 1;
          rep.stats.count("regression-replays", 1);
          if let Err(v) = run_guarded(|| run(&c)) {
            rep.violations.push((v, f.to_string_lossy().to_string()));
            return true;
          }
        }
      }
    }
  }
  false
}

pub fn check_trace_prop(which: u32, cfg: &RunCfg, findings: &Findings) -> Report {
  let name = format!("C{:02}", which);
  let rule = match which {
    10 => "case = (layout, key history, delivery schedule: arrival batches of 0-6 events, arrivals in the middle of a drain, spurious time-outs and readiness, one interruption, tablet events, end of device in the same or a later wake-up); non-trivial = at least one wake-up that delivers >=2 keyboard events; distinct = hash of (layout, script)",
    11 => "case = (repeat-dense layout with chords of 0-3 keys that may overlap held keys, key history, schedule with runs of time-outs; a slice of cases really sleeps until the requested deadline); non-trivial = at least one timer chord was written; distinct = hash of (layout, script)",
    _ => "case = (layout, key history, schedule with tablet on/off events anywhere: repeated, during chords, with a repeat pending, in the same wake-up as keyboard events in either report order); non-trivial = tablet mode turns on while keys are held on the output or a repeat is pending; distinct = hash of (layout, script)",
  };
  let mut rep = Report::new(&name, "exploration", rule);
  let quick = cfg.tier == Tier::Quick;
  let run = |c: &LoopCase| -> Result<(), Violation> {
    let mut f = LoopFacts::default();
    run_loop_case(which, c, &mut f)
  };
  if replay_regressions(which, &name, &mut rep, &run) {
    return rep;
  }
  // (VERIF_ONLY_REAL is a development switch: measure what the real-descriptor stage finds alone)
  if std::env::var("VERIF_ONLY_REAL").is_ok() && (which == 10 || which == 12) {
    crate::props_real::stage(which, cfg, findings, &mut rep);
    return rep;
  }
  let per_shard: u32 = if quick { 20_000 } else { 150_000 };
  let (st, fail) = run_prop(
    cfg,
    &format!("{}-random", name),
    16,
    per_shard,
    64,
    if quick { 1000 } else { 1200 },
    |src: &mut Src| gen_loop_case(src, which, quick),
    |c: &Option<LoopCase>, stats: &mut Stats| {
      let c = match c {
        Some(c) => c,
        None => {
          stats.discards += 1;
          return Ok(());
        }
      };
      let mut f = LoopFacts::default();
      match run_loop_case(which, c, &mut f) {
        Ok(()) => {
          record(which, c, &f, stats);
          Ok(())
        }
        Err(v) => {
          if let Some(k) = findings.is_known(&name, &v) {
            stats.known(&k.signature);
            return Ok(());
          }
          Err(v)
        }
      }
    },
  );
  rep.stats.merge(st);
  if let Some(f) = fail {
    if let Some(c) = f.case {
      let kind = f.violation.kind.clone();
      let fails = |c: &LoopCase| -> bool {
        match run_guarded(|| run(c)) {
          Err(v) => v.kind == kind && findings.is_known(&name, &v).is_none(),
          Ok(()) => false,
        }
      };
      let min = minimise_loop(which, &c, &kind, &fails);
      let v2 = run_guarded(|| run(&min)).err().unwrap_or(f.violation);
      let path = write_replay(&name, &v2, &min.to_json());
      rep.violations.push((v2, path));
    }
    return rep;
  }
  {
    // slow-time slice: generated cases with a real back-off and / or a late poll, one thread each
    let n_slow = if quick { 256 } else { 1_024 };
    let wide = RunCfg { seed: cfg.seed, tier: cfg.tier, threads: 256 };
    let (st, fail) = run_prop_iters(
      &wide,
      &format!("{}-slow", name),
      n_slow,
      1,
      64,
      1000,
      12,
      |src: &mut Src| {
        // (half of C10's slow cases come from the repeat-heavy generator: a late poll or a
        // back-off matters most while a repeat is pending)
        let gw = if which == 10 && src.chance(50) { 11 } else { which };
        let mut c = gen_loop_case(src, gw, true)?;
        if c.script.kb_events.len() > 200 {
          return None;
        }
        make_slow(src, &mut c, quick);
        Some(c)
      },
      |c: &Option<LoopCase>, stats: &mut Stats| {
        let c = match c {
          Some(c) => c,
          None => {
            stats.discards += 1;
            return Ok(());
          }
        };
        let mut f = LoopFacts::default();
        match run_loop_case(which, c, &mut f) {
          Ok(()) => {
            record(which, c, &f, stats);
            stats.label("slow-time-case");
            Ok(())
          }
          Err(v) => {
            if let Some(k) = findings.is_known(&name, &v) {
              stats.known(&k.signature);
              return Ok(());
            }
            Err(v)
          }
        }
      },
    );
    rep.stats.merge(st);
    if let Some(f) = fail {
      if let Some(c) = f.case {
        let path = write_replay(&name, &f.violation, &c.to_json());
        rep.violations.push((f.violation, path));
      }
      return rep;
    }
  }
  if which == 11 {
    // stall slice: one poll blocks for seconds (stopped process, suspend) while a repeat is
    // pending; afterwards the loop must still aim at the original grid fire + delay + n*interval
    let stalls: Vec<u64> = if quick { vec![5_300; 16] } else { vec![1_200, 2_500, 5_300, 5_300, 5_300, 5_300, 6_000, 6_000, 10_500, 10_500, 5_300, 5_300, 2_500, 1_200, 5_300, 5_300] };
    let results: Vec<Option<(LoopCase, Violation)>> = par_map(16, 16, |i| {
      use crate::keys::KeyCode::*;
      let interval = [200, 150, 333, 90][i % 4];
      let layout = Layout { mappings: vec![
        Mapping { from: vec![A], to: vec![F13], repeat: Repeat::Special { keys: if i % 2 == 0 { vec![F20] } else { vec![LEFTCTRL, F20] }, delay_ms: 40, interval_ms: interval }, absorbing: vec![] },
        Mapping { from: vec![B], to: vec![F14], repeat: Repeat::Normal, absorbing: vec![] },
      ] };
      let mut actions = vec![Action::Arrive { kb: 1, tablet: vec![], tablet_first: false, mid: vec![], spurious_kb: false }, Action::TimedOut, Action::TimedOut];
      for _ in 0..(3 + i % 4) {
        actions.push(Action::TimedOut);
      }
      actions.push(Action::Arrive { kb: 1, tablet: vec![], tablet_first: false, mid: vec![], spurious_kb: false });
      let script = Script { kb_events: vec![Event::Pressed(A), Event::Released(A)], actions, end_in_same_drain: false, real_sleep: false, stall: Some((2, stalls[i])) };
      let c = LoopCase { layout, script, family: "stall".into() };
      let mut f = LoopFacts::default();
      match run_guarded(|| run_loop_case(which, &c, &mut f)) {
        Ok(()) => None,
        Err(v) => Some((c, v)),
      }
    });
    rep.stats.evaluations += 16;
    rep.stats.count("stall-cases", 16);
    if let Some((c, v)) = results.into_iter().flatten().next() {
      if findings.is_known(&name, &v).is_none() {
        let path = write_replay(&name, &v, &c.to_json());
        rep.violations.push((v, path));
        return rep;
      }
    }
  }
  if (which == 10 || which == 12) && crate::props_real::stage(which, cfg, findings, &mut rep) {
    return rep;
  }
  crate::fuzzstage::stage(&mut rep, cfg, "fz_loop", which, 800_000, 900);
  rep.assumptions = vec![
    "real-descriptor stage: the loop runs on the repository's real driver over socket pairs and a pipe owned by the harness; Special repeats are replaced by Disabled ones there (timers are C11's); quiescence = nothing unread and the loop's thread blocked in epoll_wait (/proc/self/task/<tid>/syscall); end of device (ENODEV) cannot be produced on a socket, every run ends with an injected failure".to_string(),
    "the scripted driver models two edge-triggered devices: readiness is reported once per arrival; an unread event whose readiness was already reported is lost if the loop polls again".to_string(),
    "the twin mapper (same layout, same code) defines the expected step outputs; the mapper itself is checked by C01-C09 and C19".to_string(),
    "timing uses the real monotonic clock with true interval bounds (no tolerance); time-outs are normally returned immediately, in a slice of cases the driver sleeps until the requested deadline".to_string(),
  ];
  rep
}

// ---- C20: fault enumeration -----------------------------------------------------------------

pub fn has_storm(s: &Script) -> bool {
  s.actions.windows(2).any(|w| matches!(w[0], Action::Interrupted) && matches!(w[1], Action::Interrupted))
}

// One run with the k-th driver call failing; Ok(true) = the fault hit after at least one write.
fn check_fault_run(c: &LoopCase, k: usize, sends0: &[Vec<Event>]) -> Result<bool, Violation> {
  let (res, d) = run_loop(&c.layout, &c.script, Some(k));
  let marker = fault_marker(k);
  let failing_call = d.calls.iter().position(|c| c.failed);
  let what = failing_call.map(|i| call_text(&d.calls[i])).unwrap_or_default();
  if !d.fault_hit {
    // the run ended before call k (the call sequence differs from the fault-free run):
    // not a fault-handling matter
    return Ok(false);
  }
  match &res {
    Ok(()) => {
      return Err(Violation::new("error-swallowed", format!("call #{} ({}) failed with '{}' but the loop returned Ok(()) | trace: {}", k, what, marker, trace_text(&d.calls).join("; "))));
    }
    Err(e) => {
      if !e.contains(&marker) {
        return Err(Violation::new("wrong-error-returned", format!("call #{} ({}) failed with '{}' but the loop returned Err('{}') | trace: {}", k, what, marker, e, trace_text(&d.calls).join("; "))));
      }
    }
  }
  if d.calls_after_fault > 0 {
    let idx = failing_call.unwrap_or(0);
    if d.calls[idx + 1..].iter().any(|c| matches!(c.kind, CallKind::Send { .. })) {
      let later: Vec<String> = d.calls[idx + 1..].iter().map(call_text).collect();
      return Err(Violation::new("write-after-failure", format!("call #{} ({}) failed but the loop went on and wrote to the virtual keyboard: {} | trace: {}", k, what, later.join("; "), trace_text(&d.calls).join("; "))));
    }
  }
  let sends: Vec<Vec<Event>> = d.calls.iter().filter_map(|c| match &c.kind { CallKind::Send { evs } if !c.failed => Some(evs.clone()), _ => None }).collect();
  if sends.len() > sends0.len() || sends[..] != sends0[..sends.len()] {
    if !c.script.real_sleep && c.script.stall.is_none() {
      return Err(Violation::new("writes-differ-before-failure", format!("call #{} failed; the writes before it are not a prefix of the fault-free run's writes", k)));
    }
  }
  Ok(!sends.is_empty())
}

// Storm variant: the fault-free run really backs off (4 s); then each of the (up to) 12 calls
// that follow the second interruption fails in a run of its own, all runs in parallel.
pub fn run_c20_storm_case(c: &LoopCase) -> Result<(u32, u32), Violation> {
  let (_res0, d0) = run_loop(&c.layout, &c.script, None);
  let n = d0.calls.len();
  let sends0: Vec<Vec<Event>> = d0.calls.iter().filter_map(|c| match &c.kind { CallKind::Send { evs } if !c.failed => Some(evs.clone()), _ => None }).collect();
  // position (1-based) of the poll that returned the second interruption in a row
  let mut storm_end: Option<usize> = None;
  let mut prev_interrupted = false;
  for (i, call) in d0.calls.iter().enumerate() {
    if let CallKind::Poll { ret, .. } = &call.kind {
      let is_int = matches!(ret, Some(VPoll::Interrupted));
      if is_int && prev_interrupted && storm_end.is_none() {
        storm_end = Some(i + 1);
      }
      prev_interrupted = is_int;
    }
  }
  let s = match storm_end {
    Some(s) => s,
    None => return Ok((0, 0)),
  };
  let ks: Vec<usize> = (s + 1..=n.min(s + 12)).collect();
  if ks.is_empty() {
    return Ok((0, 0));
  }
  let results: Vec<Result<bool, Violation>> = par_map(ks.len(), ks.len(), |i| run_guarded(|| check_fault_run(c, ks[i], &sends0).map(|_| ())).map(|_| true));
  let mut injected = 0u32;
  for r in results {
    injected += 1;
    r?;
  }
  Ok((injected, injected))
}

pub fn run_c20_case(c: &LoopCase, stats: Option<&mut Stats>, sample_src: Option<&mut Src>) -> Result<(u32, u32), Violation> {
  // fault-free run: counts the driver calls and records the sends
  let (res0, d0) = run_loop(&c.layout, &c.script, None);
  let n = d0.calls.len();
  let sends0: Vec<Vec<Event>> = d0.calls.iter().filter_map(|c| match &c.kind { CallKind::Send { evs } if !c.failed => Some(evs.clone()), _ => None }).collect();
  let mut ks: Vec<usize> = (1..=n).collect();
  if n > 256 {
    // all of the first 256 calls, a generated subset beyond
    if let Some(src) = sample_src {
      let mut keep: Vec<usize> = (1..=256).collect();
      for k in 257..=n {
        if src.chance(25) {
          keep.push(k);
        }
      }
      ks = keep;
    }
  }
  let mut injected = 0u32;
  let mut after_send = 0u32;
  for k in ks {
    injected += 1;
    if check_fault_run(c, k, &sends0)? {
      after_send += 1;
    }
  }
  let _ = res0;
  Ok((injected, after_send))
}

// index (1-based) of the driver call that follows the scripted actions of an interrupt-storm
// case: register + per arrival (poll + reads + sends + Busy) + one poll per interruption + 1.
// Computed with the twin mapper instead of a fault-free run (which would sleep).
fn run_loop_prefix_count(c: &LoopCase) -> ((), usize) {
  let mut twin = Mapper::for_layout(&c.layout);
  let mut calls = 1usize; // register_poll
  for a in &c.script.actions {
    match a {
      Action::Arrive { kb, .. } => {
        calls += 1; // poll
        for e in c.script.kb_events.iter().take(*kb) {
          calls += 1; // next_keyboard -> One
          if !twin.step(e.clone()).events.is_empty() {
            calls += 1; // send
          }
        }
        calls += 1; // next_keyboard -> Busy
      }
      _ => calls += 1, // poll returning Interrupted / TimedOut
    }
  }
  ((), calls + 1)
}

pub fn check_c20(cfg: &RunCfg, _findings: &Findings) -> Report {
  let mut rep = Report::new(
    "C20",
    "fault_enumeration",
    "case = (layout, key history, schedule) x index k of the driver call (register_poll, poll, next_keyboard, next_tablet or send) that fails with a unique marker: every k up to 256 calls, a generated quarter beyond; oracle = the loop returns an error carrying the marker, writes nothing to the virtual keyboard after the failed call (later reads are answered normally; more than 256 further calls count as not stopping), and the writes before the fault are a prefix of the fault-free run's writes; evaluations = injected faults; non-trivial = a fault that hits after at least one successful write; distinct = hash of (layout, script, k)",
  );
  let quick = cfg.tier == Tier::Quick;
  let run = |c: &LoopCase| -> Result<(), Violation> { run_c20_case(c, None, None).map(|_| ()) };
  if replay_regressions(20, "C20", &mut rep, &run) {
    return rep;
  }
  if std::env::var("VERIF_ONLY_REAL").is_ok() {
    crate::props_real::stage(20, cfg, _findings, &mut rep);
    return rep;
  }
  let (mut st, fail) = run_prop(
    cfg,
    "C20-random",
    16,
    if quick { 2_000 } else { 30_000 },
    64,
    if quick { 1000 } else { 1200 },
    |src: &mut Src| {
      let c = gen_loop_case(src, 20, true);
      // decisions for the subset of faults beyond 64 calls come from the same tape
      let extra: Vec<u32> = (0..64).map(|_| src.u32()).collect();
      c.map(|c| (c, extra))
    },
    |c: &Option<(LoopCase, Vec<u32>)>, stats: &mut Stats| {
      let (c, extra) = match c {
        Some(c) => c,
        None => {
          stats.discards += 1;
          return Ok(());
        }
      };
      let mut src2 = Src::new(extra);
      let (inj, after) = run_c20_case(c, None, Some(&mut src2))?;
      stats.count("scripted-runs", 1);
      stats.count("faults-injected", inj as u64);
      stats.count("faults-after-a-write", after as u64);
      stats.label(&format!("family:{}", c.family));
      if after > 0 {
        stats.label("non-trivial");
        let h = hash64(&(layout_text(&c.layout), c.script.to_json().to_string()));
        for j in 0..after {
          stats.nontrivial_case(hash64(&(h, j)));
        }
        if stats.want_nontrivial_sample() && c.script.kb_events.len() <= 10 {
          stats.nontrivial_samples.push(json!({"case": c.to_json(), "faults_injected": inj, "faults_after_a_write": after}));
        }
      }
      Ok(())
    },
  );
  // evaluations = injected faults (measured)
  st.evaluations = st.counters.get("faults-injected").cloned().unwrap_or(0);
  rep.stats.merge(st);
  let mut fail = fail;
  if fail.is_none() {
    // generated storms: cases of the same generator with two interruptions in a row inserted
    // anywhere; the calls after the back-off fail one at a time (parallel runs, 4 s each)
    let n_storm = if quick { 256 } else { 1_024 };
    let wide = RunCfg { seed: cfg.seed, tier: cfg.tier, threads: 256 };
    let (st2, fail2) = run_prop_iters(
      &wide,
      "C20-storm",
      n_storm,
      1,
      64,
      1000,
      3,
      |src: &mut Src| {
        // (the repeat-heavy generator of C11 for most of them: a back-off with a repeat pending
        // and chord keys already held is where the loop has the most state to get wrong)
        let which = if src.chance(60) { 11 } else { 20 };
        let mut c = gen_loop_case(src, which, true)?;
        if c.script.kb_events.len() > 200 {
          return None;
        }
        c.script.actions.retain(|a| !matches!(a, Action::Interrupted));
        // anywhere, or (half of the time) directly after an arrival
        let arrivals: Vec<usize> = c.script.actions.iter().enumerate().filter(|(_, a)| matches!(a, Action::Arrive { .. })).map(|(i, _)| i + 1).collect();
        let at = if !arrivals.is_empty() && src.chance(50) { src.pick(&arrivals) } else { src.below(c.script.actions.len() + 1) };
        c.script.actions.insert(at, Action::Interrupted);
        c.script.actions.insert(at, Action::Interrupted);
        c.family = format!("{}+storm", c.family);
        Some((c, Vec::<u32>::new()))
      },
      |c: &Option<(LoopCase, Vec<u32>)>, stats: &mut Stats| {
        let (c, _) = match c {
          Some(c) => c,
          None => {
            stats.discards += 1;
            return Ok(());
          }
        };
        let (inj, _) = run_c20_storm_case(c)?;
        stats.count("storm-runs", 1);
        stats.count("faults-injected-after-a-back-off", inj as u64);
        stats.label(&format!("family:{}", c.family));
        Ok(())
      },
    );
    let extra_faults = st2.counters.get("faults-injected-after-a-back-off").cloned().unwrap_or(0);
    rep.stats.merge(st2);
    rep.stats.evaluations += extra_faults;
    fail = fail2;
  }
  if fail.is_none() {
    // interrupt-storm slice: two (three) interruptions in a row put the real loop into its
    // back-off sleep (4 s, 8 s); the call after that fails. 16 cases in parallel, one fault each.
    let results: Vec<Option<(LoopCase, Violation)>> = par_map(16, 16, |i| {
      use crate::keys::KeyCode::*;
      let layout = Layout { mappings: vec![
        Mapping { from: vec![A], to: vec![F13], repeat: if i % 4 == 1 { Repeat::Special { keys: vec![F20], delay_ms: 9_000, interval_ms: 50 } } else { Repeat::Normal }, absorbing: vec![] },
      ] };
      // variants: idle with nothing held / a key held / a repeat pending; the failing call is a
      // poll, or the read / write after a device event that follows the storm
      let hold = i % 4 >= 2;
      let kb: Vec<Event> = if i % 4 == 0 { vec![] } else if hold { vec![Event::Pressed(B), Event::Pressed(A)] } else { vec![Event::Pressed(A)] };
      let mut actions: Vec<Action> = Vec::new();
      if !kb.is_empty() {
        actions.push(Action::Arrive { kb: kb.len(), tablet: vec![], tablet_first: false, mid: vec![], spurious_kb: false });
      }
      actions.push(Action::Interrupted);
      actions.push(Action::Interrupted);
      let script = Script { kb_events: kb.clone(), actions, end_in_same_drain: false, real_sleep: false, stall: None };
      let c = LoopCase { layout, script, family: "interrupt-storm".into() };
      // calls: register, [poll, reads and sends of the arrival, Busy], poll (EINTR), poll (EINTR), poll <- fails
      let (_r0, d0) = run_loop_prefix_count(&c);
      let k = d0;
      let (res, d) = run_loop(&c.layout, &c.script, Some(k));
      let marker = fault_marker(k);
      if !d.fault_hit {
        // the call sequence differs from the expected one (fewer calls): no verdict
        return None;
      }
      let v = match &res {
        Ok(()) => Some(Violation::new("error-swallowed", format!("call #{} (the poll after two interruptions in a row) failed with '{}' but the loop returned Ok(()) | trace: {}", k, marker, trace_text(&d.calls).join("; ")))),
        Err(e) if !e.contains(&marker) => Some(Violation::new("wrong-error-returned", format!("call #{} failed with '{}' but the loop returned Err('{}')", k, marker, e))),
        _ => {
          let idx = d.calls.iter().position(|c| c.failed).unwrap_or(0);
          if d.calls[idx + 1..].iter().any(|c| matches!(c.kind, CallKind::Send { .. })) {
            Some(Violation::new("write-after-failure", format!("call #{} failed but the loop wrote afterwards | trace: {}", k, trace_text(&d.calls).join("; "))))
          } else {
            None
          }
        }
      };
      v.map(|v| (c, v))
    });
    rep.stats.evaluations += 16;
    rep.stats.count("interrupt-storm-cases", 16);
    if let Some((c, v)) = results.into_iter().flatten().next() {
      let path = write_replay("C20", &v, &json!({"case": c.to_json(), "note": "interrupt-storm slice: the fault is injected at the poll that follows two interruptions in a row"}));
      rep.violations.push((v, path));
      return rep;
    }
  }
  if let Some(f) = fail {
    if let Some((c, _)) = f.case {
      if has_storm(&c.script) {
        // (every run of such a case sleeps for seconds: proptest's shrinking is all it gets)
        let path = write_replay("C20", &f.violation, &c.to_json());
        rep.violations.push((f.violation, path));
        return rep;
      }
      let kind = f.violation.kind.clone();
      let fails = |c: &LoopCase| -> bool {
        match run_guarded(|| run(c)) {
          Err(v) => v.kind == kind,
          Ok(()) => false,
        }
      };
      let min = minimise_loop(20, &c, &kind, &fails);
      let v2 = run_guarded(|| run(&min)).err().unwrap_or(f.violation);
      let path = write_replay("C20", &v2, &min.to_json());
      rep.violations.push((v2, path));
    }
    return rep;
  }
  if crate::props_real::stage(20, cfg, _findings, &mut rep) {
    return rep;
  }
  rep.assumptions = vec![
    "real-descriptor stage: the loop runs on the repository's real driver over socket pairs and a pipe owned by the harness; the run ends with EPIPE on the virtual keyboard or ECONNRESET on the keyboard / tablet switch; a failing poll cannot be produced on a real epoll descriptor (the scripted stage injects it)".to_string(),
    "one fault per run; the failing call performs no effect (a failed send wrote nothing, a failed read consumed nothing)".to_string(),
    "the driver call sequence of a scripted run is a function of the script and the code, not of time (time-outs are scripted)".to_string(),
  ];
  rep
}

pub fn replay(which: u32, file: &str) -> Result<(), Violation> {
  let text = std::fs::read_to_string(file).map_err(|e| Violation::new("io", format!("cannot read {}: {}", file, e)))?;
  let v: Value = serde_json::from_str(&text).map_err(|e| Violation::new("io", e.to_string()))?;
  if crate::props_real::is_real_case(v.get("case").unwrap_or(&v)) {
    return crate::props_real::replay(which, v.get("case").unwrap_or(&v));
  }
  let c = LoopCase::from_json(v.get("case").unwrap_or(&v)).map_err(|e| Violation::new("io", e))?;
  if which == 20 {
    if has_storm(&c.script) {
      run_guarded(|| run_c20_storm_case(&c).map(|_| ()))
    } else {
      run_guarded(|| run_c20_case(&c, None, None).map(|_| ()))
    }
  } else {
    let mut f = LoopFacts::default();
    run_guarded(|| run_loop_case(which, &c, &mut f))
  }
}
