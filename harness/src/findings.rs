// known_findings.json: committed, read-only at run time. Two kinds of entry:
//   known - a genuine defect that is recorded rather than repaired; a violation whose
//           (property, signature) matches is reported as KNOWN-FINDING and the search goes on
//   fixed - a repaired defect; suppresses nothing
use crate::engine::Violation;
use serde_json::Value;

#[derive(Clone, Debug)]
pub struct Known {
  pub property: String,
  pub signature: String,
  pub what: String,
}

#[derive(Clone, Debug, Default)]
pub struct Findings {
  pub known: Vec<Known>,
  pub fixed: Vec<(String, String, String)>,
}

pub fn verif_dir() -> String {
  std::env::var("VERIF_DIR").unwrap_or_else(|_| "/verif".to_string())
}

// Where evidence and replay files are written. Always /verif for registered commands; the
// development tools (mutant and seeded-change runs) point it elsewhere so that they do not
// overwrite the evidence of the unchanged tree.
pub fn verif_out_dir() -> String {
  std::env::var("VERIF_OUT_DIR").unwrap_or_else(|_| verif_dir())
}

impl Findings {
  pub fn load() -> Findings {
    let path = format!("{}/known_findings.json", verif_dir());
    let mut f = Findings::default();
    let text = match std::fs::read_to_string(&path) {
      Ok(t) => t,
      Err(_) => return f,
    };
    let v: Value = match serde_json::from_str(&text) {
      Ok(v) => v,
      Err(e) => {
        eprintln!("[findings] cannot parse {}: {}", path, e);
        return f;
      }
    };
    if let Some(arr) = v.get("known").and_then(|a| a.as_array()) {
      for e in arr {
        f.known.push(Known {
          property: e.get("property").and_then(|x| x.as_str()).unwrap_or("").to_string(),
          signature: e.get("signature").and_then(|x| x.as_str()).unwrap_or("").to_string(),
          what: e.get("what").and_then(|x| x.as_str()).unwrap_or("").to_string(),
        });
      }
    }
    if let Some(arr) = v.get("fixed").and_then(|a| a.as_array()) {
      for e in arr {
        f.fixed.push((
          e.get("property").and_then(|x| x.as_str()).unwrap_or("").to_string(),
          e.get("commit").and_then(|x| x.as_str()).unwrap_or("").to_string(),
          e.get("what").and_then(|x| x.as_str()).unwrap_or("").to_string(),
        ));
      }
    }
    f
  }

  // A violation is known only through its narrow signature; a violation without a signature
  // is never known.
  pub fn is_known(&self, property: &str, v: &Violation) -> Option<&Known> {
    if v.sig.is_empty() {
      return None;
    }
    self.known.iter().find(|k| k.property == property && k.signature == v.sig)
  }

  pub fn for_property(&self, property: &str) -> Vec<&Known> {
    self.known.iter().filter(|k| k.property == property).collect()
  }
}
