// C15: the layout saved for the systemd service reloads as the same layout.
// Round trip: serde_json::to_writer_pretty (what write_layout_to_global_config does) to a
// file, load_layout_from_file (what the service does) => Ok and the same mapping list.

use crate::engine::*;
use crate::evidence::*;
use crate::findings::Findings;
use crate::kb::*;
use crate::keys::{KeyCode, Layout, Mapping, Repeat};
use crate::layouts::*;
use crate::tape::Src;
use serde_json::{json, Value};
use std::cell::RefCell;

thread_local! {
  static SCRATCH: RefCell<Option<String>> = RefCell::new(None);
}

fn scratch_path() -> String {
  SCRATCH.with(|s| {
    let mut s = s.borrow_mut();
    if s.is_none() {
      let dir = if std::path::Path::new("/dev/shm").is_dir() { "/dev/shm".to_string() } else { std::env::temp_dir().to_string_lossy().to_string() };
      *s = Some(format!("{}/tmverif-c15-{}-{:?}.json", dir, std::process::id(), std::thread::current().id()).replace("ThreadId(", "t").replace(')', ""));
    }
    s.clone().unwrap()
  })
}

fn cleanup() {
  SCRATCH.with(|s| {
    if let Some(p) = s.borrow().as_ref() {
      let _ = std::fs::remove_file(p);
    }
  });
}

pub fn roundtrip(l: &Layout) -> Result<(), Violation> {
  let path = scratch_path();
  {
    let f = std::fs::File::create(&path).map_err(|e| Violation::new("io", e.to_string()))?;
    let w = std::io::BufWriter::new(f);
    serde_json::to_writer_pretty(w, l).map_err(|e| Violation::new("cannot-save", format!("saving [{}] failed: {}", layout_text(l), e)))?;
  }
  match crate::layout_loading::load_layout_from_file(&path) {
    Err(e) => Err(Violation::new("saved-layout-rejected", format!("layout [{}] was saved as {} but loading that file fails: {}", layout_text(l), std::fs::read_to_string(&path).unwrap_or_default().replace('\n', " "), e))),
    Ok(l2) => {
      if l2.mappings == l.mappings {
        Ok(())
      } else {
        let idx = (0..l.mappings.len().max(l2.mappings.len())).find(|i| l.mappings.get(*i) != l2.mappings.get(*i)).unwrap_or(0);
        Err(Violation::new(
          "reloaded-layout-differs",
          format!(
            "saved layout reloads differently at mapping {}: saved {}, reloaded {} ({} vs {} mappings)",
            idx,
            l.mappings.get(idx).map(mapping_text).unwrap_or("<none>".into()),
            l2.mappings.get(idx).map(mapping_text).unwrap_or("<none>".into()),
            l.mappings.len(),
            l2.mappings.len()
          ),
        ))
      }
    }
  }
}

// A basic layout written as a layout program in the documented syntax, by the harness's own
// renderer (independent of the repository's serde impls). Loading it tells whether the layout
// is one "the converter can produce" and yields the produced layout.
fn render_as_program(l: &Layout) -> Value {
  let name = |k: &KeyCode| -> Value {
    let d = format!("{:?}", k);
    let b = d.as_bytes();
    Value::String(if b.len() == 2 && b[0] == b'K' && b[1].is_ascii_digit() { d[1..].to_string() } else { d })
  };
  let maps: Vec<Value> = l.mappings.iter().map(|m| {
    let mut o = serde_json::Map::new();
    o.insert("from".into(), Value::Array(m.from.iter().map(name).collect()));
    o.insert("to".into(), Value::Array(m.to.iter().map(name).collect()));
    match &m.repeat {
      Repeat::Normal => {}
      Repeat::Disabled => {
        o.insert("repeat".into(), json!("Disabled"));
      }
      Repeat::Special { keys, delay_ms, interval_ms } => {
        o.insert("repeat".into(), json!({"Special": {"keys": keys.iter().map(name).collect::<Vec<_>>(), "delay_ms": delay_ms, "interval_ms": interval_ms}}));
      }
    }
    if !m.absorbing.is_empty() {
      o.insert("absorbing".into(), Value::Array(m.absorbing.iter().map(name).collect()));
    }
    Value::Object(o)
  }).collect();
  json!({ "mappings": maps })
}

fn nontrivial(l: &Layout) -> bool {
  l.mappings.iter().any(|m| !matches!(m.repeat, Repeat::Normal) || !m.absorbing.is_empty() || m.from.iter().chain(m.to.iter()).any(|k| key_name(*k).len() == 1 && key_name(*k).chars().all(|c| c.is_ascii_digit())))
}

// directly generated basic layouts within the converter's range
fn gen_basic(src: &mut Src, all_keys: &[KeyCode]) -> Layout {
  let n = src.range(0, 5);
  let mut mappings = Vec::new();
  for _ in 0..n {
    let pool: Vec<KeyCode> = (0..8).map(|_| if src.chance(40) { src.pick(&[KeyCode::K0, KeyCode::K1, KeyCode::K5, KeyCode::K9, KeyCode::LEFTSHIFT, KeyCode::RIGHTSHIFT, KeyCode::CAPSLOCK, KeyCode::A]) } else { all_keys[src.below(all_keys.len())] }).collect();
    let mut uniq: Vec<KeyCode> = Vec::new();
    for k in pool {
      if !uniq.contains(&k) {
        uniq.push(k);
      }
    }
    let nf = src.range(1, 4).min(uniq.len());
    let from = src.distinct(&uniq, nf);
    let nt = src.below(4).min(uniq.len());
    let to = src.distinct(&uniq, nt);
    let repeat = match src.below(4) {
      0 | 1 => Repeat::Normal,
      2 => Repeat::Disabled,
      _ => {
        let nk = src.below(4).min(uniq.len());
        let num = |src: &mut Src| match src.below(7) {
          0 => 0,
          1 => i32::MAX,
          2 => i32::MIN,
          3 => -1,
          4 => 180,
          _ => src.u32() as i32,
        };
        Repeat::Special { keys: src.distinct(&uniq, nk), delay_ms: num(src), interval_ms: num(src) }
      }
    };
    let absorbing = if from.len() > 1 && src.chance(40) { src.subset(&from[..from.len() - 1], 60) } else { vec![] };
    mappings.push(Mapping { from, to, repeat, absorbing });
  }
  Layout { mappings }
}

pub fn check(cfg: &RunCfg, _findings: &Findings) -> Report {
  let mut rep = Report::new(
    "C15",
    "exploration",
    "case = basic layout: (a) conversion of a generated layout program (alias triggers, rows, Special repeats with empty or multi-key chords, absorbing lists), the built-ins and README layouts, (b) directly generated basic layouts over all key codes with i32 extremes, (c) for every key code the tool knows a layout using that key as trigger, output, chord key and absorbed modifier (exhaustive); oracle = write with serde_json::to_writer_pretty, load with load_layout_from_file, same mapping list; non-trivial = a non-default repeat, an absorbing list or a digit key; distinct = hash of the layout text",
  );
  let quick = cfg.tier == Tier::Quick;
  let all = all_key_codes();
  // (c) exhaustive over key codes
  let other = |k: KeyCode, a: KeyCode, b: KeyCode| if k == a { b } else { a };
  for k in &all {
    let x = other(*k, KeyCode::A, KeyCode::B);
    let y = other(*k, KeyCode::LEFTSHIFT, KeyCode::RIGHTSHIFT);
    let l = Layout {
      mappings: vec![
        // (plain numbers here: this slice is about key names; numeric ranges belong to the generated layouts)
        Mapping { from: vec![*k], to: vec![*k], repeat: Repeat::Special { keys: vec![*k], delay_ms: 180, interval_ms: 30 }, absorbing: vec![] },
        Mapping { from: vec![*k, x], to: vec![y, *k], repeat: Repeat::Disabled, absorbing: vec![*k] },
        Mapping { from: vec![y, *k], to: vec![], repeat: Repeat::Special { keys: vec![], delay_ms: 0, interval_ms: 1 }, absorbing: vec![y] },
      ],
    };
    rep.stats.evaluations += 1;
    rep.stats.nontrivial_case(hash64(&layout_text(&l)));
    if rep.stats.nontrivial_samples.len() < 2 {
      rep.stats.nontrivial_samples.push(json!({"per_key_code": key_name(*k), "layout": layout_text(&l)}));
    }
    if let Err(v) = run_guarded(|| roundtrip(&l)) {
      let path = write_replay("C15", &v, &json!({"layout": serde_json::to_value(&l).unwrap()}));
      rep.violations.push((v, path));
      cleanup();
      return rep;
    }
  }
  rep.stats.count("key-codes-enumerated", all.len() as u64);
  rep.extra.insert("key_codes".into(), json!(all.len()));
  // catalogue
  for e in catalogue() {
    rep.stats.evaluations += 1;
    rep.stats.label("catalogue");
    if nontrivial(&e.layout) {
      rep.stats.nontrivial_case(hash64(&layout_text(&e.layout)));
    }
    if let Err(v) = run_guarded(|| roundtrip(&e.layout)) {
      let path = write_replay("C15", &v, &json!({"layout": serde_json::to_value(&e.layout).unwrap(), "name": e.name}));
      rep.violations.push((v, path));
      cleanup();
      return rep;
    }
  }
  let all_ref = &all;
  let (st, fail) = run_prop(
    cfg,
    "C15-layouts",
    16,
    if quick { 45_000 } else { 120_000 },
    64,
    300,
    |src: &mut Src| -> Option<(String, Layout)> {
      match src.weighted(&[45, 35, 20]) {
        0 => {
          let c = crate::props_c13::gen_case(src);
          load_value(&c.json_a).ok().map(|l| ("converted-program".to_string(), l))
        }
        // directly generated layouts are first written as a program by the harness's own
        // renderer and converted: what comes out is, by definition, a layout the converter can
        // produce (a loader that rejects e.g. negative delays simply narrows this domain)
        1 => load_value(&render_as_program(&gen_basic(src, all_ref))).ok().map(|l| ("direct".to_string(), l)),
        _ => {
          let fam = match src.below(4) {
            0 => Family::General,
            1 => Family::Tagged,
            2 => Family::AbsorbingDense,
            _ => Family::RepeatDense,
          };
          load_value(&render_as_program(&gen_family(src, fam, &LayoutOpts { allow_absorbing: true, max_alphabet: 8 }).layout)).ok().map(|l| ("family".to_string(), l))
        }
      }
    },
    |c: &Option<(String, Layout)>, stats: &mut Stats| {
      let (origin, l) = match c {
        Some(c) => c,
        None => {
          stats.discards += 1;
          return Ok(());
        }
      };
      stats.label(&format!("origin:{}", origin));
      roundtrip(l)?;
      if l.mappings.iter().any(|m| matches!(&m.repeat, Repeat::Special { keys, .. } if keys.is_empty())) {
        stats.label("special-with-empty-chord");
      }
      if l.mappings.iter().any(|m| !m.absorbing.is_empty()) {
        stats.label("absorbing-list");
      }
      if l.mappings.iter().any(|m| m.to.is_empty()) {
        stats.label("empty-output");
      }
      if nontrivial(l) {
        stats.label("non-trivial");
        stats.nontrivial_case(hash64(&layout_text(l)));
        if stats.want_nontrivial_sample() && l.mappings.len() <= 4 {
          stats.nontrivial_samples.push(json!({"origin": origin, "layout": serde_json::to_value(l).unwrap()}));
        }
      } else if stats.want_sample() && l.mappings.len() <= 3 {
        stats.samples.push(json!({"origin": origin, "layout": serde_json::to_value(l).unwrap()}));
      }
      Ok(())
    },
  );
  rep.stats.merge(st);
  cleanup();
  if let Some(f) = fail {
    if let Some((origin, l)) = f.case {
      // minimise: drop mappings while it still fails
      let kind = f.violation.kind.clone();
      let mut best = l.clone();
      let mut changed = true;
      while changed {
        changed = false;
        for i in (0..best.mappings.len()).rev() {
          let mut c = best.clone();
          c.mappings.remove(i);
          if let Err(v) = run_guarded(|| roundtrip(&c)) {
            if v.kind == kind {
              best = c;
              changed = true;
            }
          }
        }
      }
      let v2 = run_guarded(|| roundtrip(&best)).err().unwrap_or(f.violation);
      let path = write_replay("C15", &v2, &json!({"origin": origin, "layout": serde_json::to_value(&best).unwrap()}));
      rep.violations.push((v2, path));
      cleanup();
    }
    return rep;
  }
  rep.exhaustive = false;
  rep.assumptions = vec![
    "the key-code part (one layout per key code, 4 positions) is enumerated completely; layouts are a sample".to_string(),
    "directly generated layouts stay within what the converter can produce: distinct keys per trigger/output, absorbing a subset of the non-final trigger keys".to_string(),
  ];
  rep
}

pub fn replay(file: &str) -> Result<(), Violation> {
  let text = std::fs::read_to_string(file).map_err(|e| Violation::new("io", format!("cannot read {}: {}", file, e)))?;
  let v: Value = serde_json::from_str(&text).map_err(|e| Violation::new("io", e.to_string()))?;
  let case = v.get("case").unwrap_or(&v);
  let l: Layout = serde_json::from_value(case.get("layout").cloned().ok_or_else(|| Violation::new("io", "no layout".to_string()))?).map_err(|e| Violation::new("io", e.to_string()))?;
  let r = run_guarded(|| roundtrip(&l));
  cleanup();
  r
}
