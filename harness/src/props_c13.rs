// C13: row / alias shorthands mean exactly their hand-written expansion.
// Generator: layout programs from a grammar. Oracles: (1) an independent reference expander
// written from the README and the property text with its own US-QWERTY tables,
// (2) respelling (metamorphic), (3) rejection of over-long rows, unknown characters and
// undefined or misplaced aliases.

use crate::engine::*;
use crate::evidence::*;
use crate::findings::Findings;
use crate::kb::*;
use crate::keys::{KeyCode, Layout, Mapping, Repeat};
use crate::layouts::load_value;
use crate::tape::Src;
use serde_json::{json, Map, Value};
use KeyCode::*;

// ---- independent tables ---------------------------------------------------------------------

// (unshifted, shifted, key) on a US-QWERTY keyboard
const US_QWERTY: &[(char, char, KeyCode)] = &[
  ('`', '~', GRAVE), ('1', '!', K1), ('2', '@', K2), ('3', '#', K3), ('4', '$', K4), ('5', '%', K5), ('6', '^', K6), ('7', '&', K7), ('8', '*', K8), ('9', '(', K9), ('0', ')', K0), ('-', '_', MINUS), ('=', '+', EQUAL),
  ('q', 'Q', Q), ('w', 'W', W), ('e', 'E', E), ('r', 'R', R), ('t', 'T', T), ('y', 'Y', Y), ('u', 'U', U), ('i', 'I', I), ('o', 'O', O), ('p', 'P', P), ('[', '{', LEFTBRACE), (']', '}', RIGHTBRACE), ('\\', '|', BACKSLASH),
  ('a', 'A', A), ('s', 'S', S), ('d', 'D', D), ('f', 'F', F), ('g', 'G', G), ('h', 'H', H), ('j', 'J', J), ('k', 'K', K), ('l', 'L', L), (';', ':', SEMICOLON), ('\'', '"', APOSTROPHE),
  ('z', 'Z', Z), ('x', 'X', X), ('c', 'C', C), ('v', 'V', V), ('b', 'B', B), ('n', 'N', N), ('m', 'M', M), (',', '<', COMMA), ('.', '>', DOT), ('/', '?', SLASH),
];

fn char_key(c: char) -> Option<(bool, KeyCode)> {
  for (lo, hi, k) in US_QWERTY {
    if *lo == c {
      return Some((false, *k));
    }
    if *hi == c {
      return Some((true, *k));
    }
  }
  None
}

const ROW_NAMES: [&str; 5] = ["`", "1", "Q", "A", "Z"];

fn row_keys(row: usize) -> Vec<KeyCode> {
  match row {
    0 => vec![GRAVE, K1, K2, K3, K4, K5, K6, K7, K8, K9, K0, MINUS, EQUAL],
    1 => vec![K1, K2, K3, K4, K5, K6, K7, K8, K9, K0, MINUS, EQUAL],
    2 => vec![Q, W, E, R, T, Y, U, I, O, P, LEFTBRACE, RIGHTBRACE],
    3 => vec![A, S, D, F, G, H, J, K, L, SEMICOLON, APOSTROPHE],
    _ => vec![Z, X, C, V, B, N, M, COMMA, DOT, SLASH],
  }
}

// ---- programs -------------------------------------------------------------------------------

#[derive(Clone, Debug, PartialEq)]
pub enum Mo {
  Key(KeyCode),
  Alias(usize),
}

#[derive(Clone, Debug)]
pub struct AliasDef {
  pub keys: Vec<KeyCode>,
  pub extra: Vec<KeyCode>,
}

#[derive(Clone, Debug)]
pub struct Alias {
  pub name: String,
  pub defs: Vec<AliasDef>,
}

#[derive(Clone, Debug)]
pub enum SRep {
  Absent,
  Normal,
  Disabled,
  Special { initial: Vec<Mo>, terminal: Option<KeyCode>, delay: i32, interval: i32 },
}

#[derive(Clone, Debug)]
pub enum RRep {
  Absent,
  Normal,
  Disabled,
  Special { initial: Vec<Mo>, letters: String, delay: i32, interval: i32 },
}

#[derive(Clone, Debug)]
pub enum Item {
  AliasDef(usize, usize),
  Single { mods: Vec<Mo>, key: KeyCode, to_initial: Vec<Mo>, to_terminal: Option<KeyCode>, rep: SRep, absorbing: Vec<Mo> },
  Row { mods: Vec<Mo>, row: usize, to_initial: Vec<Mo>, letters: String, rep: RRep, absorbing: Vec<Mo> },
  RepeatOnly { mods: Vec<Mo>, key: KeyCode, rep: SRep },
}

#[derive(Clone, Debug)]
pub struct Prog {
  pub aliases: Vec<Alias>,
  pub items: Vec<Item>,
}

impl Prog {
  // a repeat time that is negative: whether such a program is accepted is left open (a loader
  // may reject it); if it is accepted, the expansion must carry the number unchanged
  pub fn has_negative_time(&self) -> bool {
    self.items.iter().any(|it| match it {
      Item::Single { rep: SRep::Special { delay, interval, .. }, .. } | Item::RepeatOnly { rep: SRep::Special { delay, interval, .. }, .. } => *delay < 0 || *interval < 0,
      Item::Row { rep: RRep::Special { delay, interval, .. }, .. } => *delay < 0 || *interval < 0,
      _ => false,
    })
  }
}

fn gen_ms(src: &mut Src, base: usize) -> i32 {
  match src.weighted(&[80, 5, 5, 4, 3, 3]) {
    0 => src.below(base) as i32 + if base < 100 { 1 } else { 0 },
    1 => 0,
    2 => -1,
    3 => i32::MAX,
    4 => i32::MIN,
    _ => -(src.below(1000) as i32),
  }
}

// spelling decisions are drawn from a separate source so that one program can be rendered twice
pub struct Spell<'a, 'b> {
  pub src: &'a mut Src<'b>,
  pub vary: bool,
}

impl<'a, 'b> Spell<'a, 'b> {
  fn flip(&mut self) -> bool {
    self.vary && self.src.chance(50)
  }
  fn one_or_array(&mut self, mut elems: Vec<Value>) -> Value {
    if elems.len() == 1 && !self.flip() {
      elems.remove(0)
    } else if elems.len() == 1 {
      Value::Array(elems)
    } else {
      Value::Array(elems)
    }
  }
  fn case(&mut self, s: &str) -> String {
    if !self.vary {
      return s.to_string();
    }
    s.chars().map(|c| if self.src.chance(50) { c.to_ascii_lowercase() } else { c.to_ascii_uppercase() }).collect()
  }
}

fn mo_json(p: &Prog, m: &Mo) -> Value {
  match m {
    Mo::Key(k) => Value::String(key_name(*k)),
    Mo::Alias(i) => Value::String(p.aliases[*i].name.clone()),
  }
}

fn srep_json(p: &Prog, r: &SRep, sp: &mut Spell) -> Option<Value> {
  match r {
    SRep::Absent => None,
    SRep::Normal => Some(Value::String(sp.case("Normal"))),
    SRep::Disabled => Some(Value::String(sp.case("Disabled"))),
    SRep::Special { initial, terminal, delay, interval } => {
      let mut elems: Vec<Value> = initial.iter().map(|m| mo_json(p, m)).collect();
      let keys = match terminal {
        Some(k) => {
          elems.push(Value::String(key_name(*k)));
          sp.one_or_array(elems)
        }
        None => Value::Array(vec![]),
      };
      Some(json!({"Special": {"keys": keys, "delay_ms": delay, "interval_ms": interval}}))
    }
  }
}

pub fn render(p: &Prog, sp: &mut Spell) -> Value {
  let mut out = Vec::new();
  for it in &p.items {
    let mut o = Map::new();
    match it {
      Item::AliasDef(ai, di) => {
        let d = &p.aliases[*ai].defs[*di];
        let from: Vec<Value> = d.keys.iter().map(|k| Value::String(key_name(*k))).collect();
        o.insert("from".into(), sp.one_or_array(from));
        let mut to: Vec<Value> = d.extra.iter().map(|k| Value::String(key_name(*k))).collect();
        to.push(Value::String(p.aliases[*ai].name.clone()));
        o.insert("to".into(), sp.one_or_array(to));
      }
      Item::Single { mods, key, to_initial, to_terminal, rep, absorbing } => {
        let mut from: Vec<Value> = mods.iter().map(|m| mo_json(p, m)).collect();
        from.push(Value::String(key_name(*key)));
        o.insert("from".into(), sp.one_or_array(from));
        match to_terminal {
          None => {
            o.insert("to".into(), Value::Array(vec![]));
          }
          Some(t) => {
            let mut to: Vec<Value> = to_initial.iter().map(|m| mo_json(p, m)).collect();
            to.push(Value::String(key_name(*t)));
            o.insert("to".into(), sp.one_or_array(to));
          }
        }
        if let Some(r) = srep_json(p, rep, sp) {
          o.insert("repeat".into(), r);
        }
        if !absorbing.is_empty() {
          let a: Vec<Value> = absorbing.iter().map(|m| mo_json(p, m)).collect();
          o.insert("absorbing".into(), sp.one_or_array(a));
        }
      }
      Item::Row { mods, row, to_initial, letters, rep, absorbing } => {
        let mut from: Vec<Value> = mods.iter().map(|m| mo_json(p, m)).collect();
        from.push(json!({"row": sp.case(ROW_NAMES[*row])}));
        o.insert("from".into(), sp.one_or_array(from));
        let mut to: Vec<Value> = to_initial.iter().map(|m| mo_json(p, m)).collect();
        to.push(json!({"letters": letters}));
        o.insert("to".into(), sp.one_or_array(to));
        match rep {
          RRep::Absent => {}
          RRep::Normal => {
            o.insert("repeat".into(), Value::String(sp.case("normal")));
          }
          RRep::Disabled => {
            o.insert("repeat".into(), Value::String(sp.case("disabled")));
          }
          RRep::Special { initial, letters, delay, interval } => {
            let mut ks: Vec<Value> = initial.iter().map(|m| mo_json(p, m)).collect();
            ks.push(json!({"letters": letters}));
            let keys = sp.one_or_array(ks);
            o.insert("repeat".into(), json!({"Special": {"keys": keys, "delay_ms": delay, "interval_ms": interval}}));
          }
        }
        if !absorbing.is_empty() {
          let a: Vec<Value> = absorbing.iter().map(|m| mo_json(p, m)).collect();
          o.insert("absorbing".into(), sp.one_or_array(a));
        }
      }
      Item::RepeatOnly { mods, key, rep } => {
        let mut from: Vec<Value> = mods.iter().map(|m| mo_json(p, m)).collect();
        from.push(Value::String(key_name(*key)));
        o.insert("from".into(), sp.one_or_array(from));
        o.insert("repeat".into(), srep_json(p, rep, sp).unwrap_or(Value::String("Normal".into())));
      }
    }
    out.push(Value::Object(o));
  }
  json!({ "mappings": out })
}

// ---- reference expander ---------------------------------------------------------------------

#[derive(Clone, Debug)]
pub struct Expansion {
  pub groups: Vec<Vec<Mapping>>, // one group per source item that produces mappings, in source order
  pub identities: Vec<Mapping>,  // identity mappings added by repeat-only entries
}

fn is_std_modifier(k: KeyCode) -> bool {
  matches!(k, LEFTSHIFT | RIGHTSHIFT | LEFTCTRL | RIGHTCTRL | LEFTALT | RIGHTALT | LEFTMETA | RIGHTMETA)
}

// all combinations of alias-definition choices for the alias occurrences in `mods`
fn combinations(p: &Prog, mods: &[Mo]) -> Vec<Vec<usize>> {
  let mut combos: Vec<Vec<usize>> = vec![vec![]];
  for m in mods {
    if let Mo::Alias(ai) = m {
      let n = p.aliases[*ai].defs.len();
      let mut next = Vec::new();
      for c in &combos {
        for d in 0..n {
          let mut c2 = c.clone();
          c2.push(d);
          next.push(c2);
        }
      }
      combos = next;
    }
  }
  combos
}

// the chosen definition for alias `ai` under a combination (indexed by alias occurrence order)
fn chosen(p: &Prog, mods: &[Mo], combo: &[usize], ai: usize) -> Option<usize> {
  let mut j = 0;
  let mut found = None;
  for m in mods {
    if let Mo::Alias(a) = m {
      if *a == ai {
        found = Some(combo[j]);
      }
      j += 1;
    }
  }
  found
}

fn expand_mods(p: &Prog, from_mods: &[Mo], combo: &[usize], mods: &[Mo]) -> Result<Vec<KeyCode>, String> {
  let mut out = Vec::new();
  for m in mods {
    match m {
      Mo::Key(k) => out.push(*k),
      Mo::Alias(ai) => match chosen(p, from_mods, combo, *ai) {
        Some(d) => out.extend(p.aliases[*ai].defs[d].keys.iter().cloned()),
        None => return Err(format!("alias {} used on the output side but not in the trigger", p.aliases[*ai].name)),
      },
    }
  }
  Ok(out)
}

fn expand_trigger_mods(p: &Prog, mods: &[Mo], combo: &[usize]) -> Vec<KeyCode> {
  let mut out = Vec::new();
  let mut j = 0;
  for m in mods {
    match m {
      Mo::Key(k) => out.push(*k),
      Mo::Alias(ai) => {
        out.extend(p.aliases[*ai].defs[combo[j]].keys.iter().cloned());
        j += 1;
      }
    }
  }
  out
}

fn srep_expand(p: &Prog, from_mods: &[Mo], combo: &[usize], r: &SRep) -> Result<Repeat, String> {
  Ok(match r {
    SRep::Absent | SRep::Normal => Repeat::Normal,
    SRep::Disabled => Repeat::Disabled,
    SRep::Special { initial, terminal, delay, interval } => {
      let keys = match terminal {
        None => vec![],
        Some(t) => {
          let mut ks = expand_mods(p, from_mods, combo, initial)?;
          ks.push(*t);
          ks
        }
      };
      Repeat::Special { keys, delay_ms: *delay, interval_ms: *interval }
    }
  })
}

fn trigger_set(from: &[KeyCode]) -> (Vec<KeyCode>, KeyCode) {
  let mut mods: Vec<KeyCode> = from[..from.len() - 1].to_vec();
  mods.sort();
  (mods, *from.last().unwrap())
}

pub fn reference_expand(p: &Prog) -> Result<Expansion, String> {
  let mut groups = expand_groups(p)?;
  apply_repeat_only(p, &mut groups)
}

// one group per source item that produces mappings, before any repeat-only entry is applied
pub fn expand_groups(p: &Prog) -> Result<Vec<Vec<Mapping>>, String> {
  let mut groups: Vec<Vec<Mapping>> = Vec::new();
  for it in &p.items {
    match it {
      Item::AliasDef(ai, di) => {
        let d = &p.aliases[*ai].defs[*di];
        // a lone standard modifier keeps passing through: no mapping
        if d.keys.len() == 1 && is_std_modifier(d.keys[0]) {
          groups.push(vec![]);
        } else {
          groups.push(vec![Mapping { from: d.keys.clone(), to: d.extra.clone(), repeat: Repeat::Normal, absorbing: vec![] }]);
        }
      }
      Item::Single { mods, key, to_initial, to_terminal, rep, absorbing } => {
        let mut g = Vec::new();
        for combo in combinations(p, mods) {
          let mut from = expand_trigger_mods(p, mods, &combo);
          from.push(*key);
          let to = match to_terminal {
            None => vec![],
            Some(t) => {
              let mut v = expand_mods(p, mods, &combo, to_initial)?;
              v.push(*t);
              v
            }
          };
          let repeat = srep_expand(p, mods, &combo, rep)?;
          let absorbing = expand_mods(p, mods, &combo, absorbing)?;
          g.push(Mapping { from, to, repeat, absorbing });
        }
        groups.push(g);
      }
      Item::Row { mods, row, to_initial, letters, rep, absorbing } => {
        let rk = row_keys(*row);
        let chars: Vec<char> = letters.chars().collect();
        if chars.iter().skip(rk.len()).any(|c| *c != ' ') {
          return Err(format!("row {} has {} keys but {} letters were given", ROW_NAMES[*row], rk.len(), chars.len()));
        }
        let chars: Vec<char> = chars.into_iter().take(rk.len()).collect();
        let mut g = Vec::new();
        for combo in combinations(p, mods) {
          let from_mods = expand_trigger_mods(p, mods, &combo);
          let shift = if from_mods.contains(&RIGHTSHIFT) { RIGHTSHIFT } else { LEFTSHIFT };
          let to_mods = expand_mods(p, mods, &combo, to_initial)?;
          let abs = expand_mods(p, mods, &combo, absorbing)?;
          let (rep_kind, rep_mods, rep_chars, delay, interval): (u8, Vec<KeyCode>, Vec<char>, i32, i32) = match rep {
            RRep::Absent | RRep::Normal => (0, vec![], vec![], 0, 0),
            RRep::Disabled => (1, vec![], vec![], 0, 0),
            RRep::Special { initial, letters: rl, delay, interval } => {
              let rc: Vec<char> = rl.chars().collect();
              if rc.len() > chars.len() {
                return Err("repeat has more letters than to".to_string());
              }
              (2, expand_mods(p, mods, &combo, initial)?, rc, *delay, *interval)
            }
          };
          for (i, ch) in chars.iter().enumerate() {
            if *ch == ' ' {
              continue;
            }
            let (sh, k) = char_key(*ch).ok_or_else(|| format!("character {:?} cannot be produced on a US keyboard", ch))?;
            let mut from = from_mods.clone();
            from.push(rk[i]);
            let mut to = to_mods.clone();
            if sh {
              to.push(shift);
            }
            to.push(k);
            let repeat = match rep_kind {
              0 => Repeat::Normal,
              1 => Repeat::Disabled,
              _ => {
                if i >= rep_chars.len() || rep_chars[i] == ' ' {
                  Repeat::Normal
                } else {
                  let (rsh, rkey) = char_key(rep_chars[i]).ok_or_else(|| format!("character {:?} cannot be produced on a US keyboard", rep_chars[i]))?;
                  let mut keys = rep_mods.clone();
                  if rsh {
                    keys.push(shift);
                  }
                  keys.push(rkey);
                  Repeat::Special { keys, delay_ms: delay, interval_ms: interval }
                }
              }
            };
            g.push(Mapping { from, to, repeat, absorbing: abs.clone() });
          }
        }
        groups.push(g);
      }
      Item::RepeatOnly { .. } => {}
    }
  }
  Ok(groups)
}

fn apply_repeat_only(p: &Prog, groups_in: &mut Vec<Vec<Mapping>>) -> Result<Expansion, String> {
  let mut groups = std::mem::take(groups_in);
  // repeat-only entries: set the repeat mode of the mappings with the same trigger set, or add
  // an identity mapping if there is none
  let mut identities = Vec::new();
  for it in &p.items {
    if let Item::RepeatOnly { mods, key, rep } = it {
      for combo in combinations(p, mods) {
        let mut from = expand_trigger_mods(p, mods, &combo);
        from.push(*key);
        let repeat = srep_expand(p, mods, &combo, rep)?;
        let ts = trigger_set(&from);
        let mut hit = false;
        for g in groups.iter_mut() {
          for m in g.iter_mut() {
            if trigger_set(&m.from) == ts {
              m.repeat = repeat.clone();
              hit = true;
            }
          }
        }
        if !hit {
          identities.push(Mapping { from: from.clone(), to: from, repeat, absorbing: vec![] });
        }
      }
    }
  }
  Ok(Expansion { groups, identities })
}

// The program with every shorthand written out by hand: every alias definition, single and row
// mapping as the basic mappings of its expansion (plain keys only), every repeat-only entry as
// one plain repeat-only entry per combination of alias definitions, all in source order. What a
// repeat-only entry does to the mappings before it is left to the converter, which sees plain
// entries only: whatever the rule for several entries on one trigger is, the shorthand program
// and its written-out form must convert to the same mappings.
fn repeat_json(r: &Repeat) -> Value {
  match r {
    Repeat::Normal => Value::String("Normal".into()),
    Repeat::Disabled => Value::String("Disabled".into()),
    Repeat::Special { keys, delay_ms, interval_ms } => json!({"Special": {"keys": keys.iter().map(|k| key_name(*k)).collect::<Vec<_>>(), "delay_ms": delay_ms, "interval_ms": interval_ms}}),
  }
}

pub fn written_out(p: &Prog) -> Result<(Value, Vec<usize>), String> {
  let groups = expand_groups(p)?;
  let mut gi = 0;
  let mut out: Vec<Value> = Vec::new();
  let mut sizes: Vec<usize> = Vec::new();
  for it in &p.items {
    match it {
      Item::RepeatOnly { mods, key, rep } => {
        for combo in combinations(p, mods) {
          let mut from = expand_trigger_mods(p, mods, &combo);
          from.push(*key);
          let repeat = srep_expand(p, mods, &combo, rep)?;
          out.push(json!({"from": from.iter().map(|k| key_name(*k)).collect::<Vec<_>>(), "repeat": repeat_json(&repeat)}));
        }
      }
      _ => {
        for m in &groups[gi] {
          let mut o = Map::new();
          o.insert("from".into(), json!(m.from.iter().map(|k| key_name(*k)).collect::<Vec<_>>()));
          o.insert("to".into(), json!(m.to.iter().map(|k| key_name(*k)).collect::<Vec<_>>()));
          o.insert("repeat".into(), repeat_json(&m.repeat));
          if !m.absorbing.is_empty() {
            o.insert("absorbing".into(), json!(m.absorbing.iter().map(|k| key_name(*k)).collect::<Vec<_>>()));
          }
          out.push(Value::Object(o));
        }
        sizes.push(groups[gi].len());
        gi += 1;
      }
    }
  }
  Ok((json!({ "mappings": out }), sizes))
}

// all expanded trigger sets of the repeat-only entries, and whether two entries share one
pub fn repeat_only_sets(p: &Prog) -> (Vec<(Vec<KeyCode>, KeyCode)>, bool) {
  let mut all: Vec<(Vec<KeyCode>, KeyCode)> = Vec::new();
  let mut shared = false;
  for it in &p.items {
    if let Item::RepeatOnly { mods, key, .. } = it {
      let sets = expanded_trigger_sets(&p.aliases, mods, *key);
      if sets.iter().any(|s| all.contains(s)) {
        shared = true;
      }
      all.extend(sets);
    }
  }
  (all, shared)
}

// Two conversions of the same program (shorthand / written out): equal up to the order inside
// one source item's expansion and the placement of the identity mappings of repeat-only entries.
pub fn same_conversion(a: &[Mapping], b: &[Mapping], sizes: &[usize], ro_sets: &[(Vec<KeyCode>, KeyCode)]) -> bool {
  if a.len() != b.len() {
    return false;
  }
  let total: usize = sizes.iter().sum();
  // identity mappings: trigger sets of repeat-only entries that no regular mapping has
  let is_ident = |m: &Mapping| m.from == m.to && m.absorbing.is_empty() && ro_sets.contains(&trigger_set(&m.from));
  let split = |v: &[Mapping]| -> Option<(Vec<Mapping>, Vec<Mapping>)> {
    // (from the end: that many mappings beyond the regular ones are identities)
    let extra = v.len().checked_sub(total)?;
    let mut reg: Vec<Mapping> = v.to_vec();
    let mut ids: Vec<Mapping> = Vec::new();
    let mut i = reg.len();
    while ids.len() < extra && i > 0 {
      i -= 1;
      if is_ident(&reg[i]) {
        ids.push(reg.remove(i));
      }
    }
    if ids.len() == extra { Some((reg, ids)) } else { None }
  };
  match (split(a), split(b)) {
    (Some((ra, ia)), Some((rb, ib))) => {
      if !multiset_eq(&ia, &ib) {
        return false;
      }
      let mut pos = 0;
      for n in sizes {
        if !multiset_eq(&ra[pos..pos + n], &rb[pos..pos + n]) {
          return false;
        }
        pos += n;
      }
      true
    }
    // the number of mappings does not fit the expansion (oracle 1 decides that): plain multiset
    _ => multiset_eq(a, b),
  }
}

fn has_dup(v: &[KeyCode]) -> bool {
  for i in 0..v.len() {
    for j in i + 1..v.len() {
      if v[i] == v[j] {
        return true;
      }
    }
  }
  false
}

fn multiset_eq(a: &[Mapping], b: &[Mapping]) -> bool {
  if a.len() != b.len() {
    return false;
  }
  let mut used = vec![false; b.len()];
  for x in a {
    let mut found = false;
    for (j, y) in b.iter().enumerate() {
      if !used[j] && x == y {
        used[j] = true;
        found = true;
        break;
      }
    }
    if !found {
      return false;
    }
  }
  true
}

// different source mappings in source order, one source mapping's expansion as a multiset,
// repeat-only identities as a multiset wherever they are placed
pub fn matches_expansion(actual: &[Mapping], e: &Expansion) -> bool {
  let total: usize = e.groups.iter().map(|g| g.len()).sum::<usize>() + e.identities.len();
  if actual.len() != total {
    return false;
  }
  // identities at the end (where the converter puts them)
  let try_with = |rest: Vec<Mapping>| -> bool {
    let mut pos = 0;
    for g in &e.groups {
      if pos + g.len() > rest.len() || !multiset_eq(&rest[pos..pos + g.len()], g) {
        return false;
      }
      pos += g.len();
    }
    pos == rest.len()
  };
  let n_reg = total - e.identities.len();
  if multiset_eq(&actual[n_reg..], &e.identities) && try_with(actual[..n_reg].to_vec()) {
    return true;
  }
  // identities anywhere: remove one occurrence of each (last occurrence first, then first)
  for from_end in [true, false] {
    let mut rest: Vec<Mapping> = actual.to_vec();
    let mut ok = true;
    for idm in &e.identities {
      let pos = if from_end { rest.iter().rposition(|m| m == idm) } else { rest.iter().position(|m| m == idm) };
      match pos {
        Some(i) => {
          rest.remove(i);
        }
        None => {
          ok = false;
          break;
        }
      }
    }
    if ok && try_with(rest) {
      return true;
    }
  }
  false
}

// ---- program generator ----------------------------------------------------------------------

// (names that differ only in case are different aliases)
const ALIAS_NAMES: [&str; 11] = ["@shift", "@symbol", "@movement", "@a", "@Mod-2", "@x_y", "@Shift", "@SHIFT", "@A", "@s", "@S"];
const PLAIN_MOD_POOL: [KeyCode; 8] = [LEFTCTRL, LEFTALT, LEFTMETA, RIGHTCTRL, SPACE, ENTER, F1, F2];
const ALIAS_KEY_POOL: [KeyCode; 12] = [LEFTSHIFT, RIGHTSHIFT, CAPSLOCK, RIGHTALT, TAB, BACKSLASH, RIGHTMETA, F3, F4, F5, F6, ESC];
const ALIAS_KEY_POOL_MORE: [KeyCode; 18] = [KP0, KP1, KP2, KP3, KP4, KP5, KP6, KP7, KP8, KP9, F13, F14, F15, F16, F17, F18, INSERT, PAUSE];
const EXTRA_OUT_POOL: [KeyCode; 4] = [F7, F8, LEFTALT, F9];
const SINGLE_KEY_POOL: [KeyCode; 10] = [SPACE, ENTER, BACKSPACE, DELETE, F10, F11, F12, UP, DOWN, A];
const OUT_KEY_POOL: [KeyCode; 10] = [ESC, LEFT, RIGHT, HOME, END, PAGEUP, K1, K0, N, BACKSPACE];

fn gen_letters(src: &mut Src, max_len: usize, allow_space: bool) -> String {
  let n = src.range(1, max_len);
  let all: Vec<char> = US_QWERTY.iter().flat_map(|(a, b, _)| vec![*a, *b]).collect();
  let mut s = String::new();
  for _ in 0..n {
    if allow_space && src.chance(18) {
      s.push(' ');
    } else {
      s.push(all[src.below(all.len())]);
    }
  }
  s
}

// every (sorted modifier keys, final key) a trigger written with aliases expands to
fn expanded_trigger_sets(aliases: &[Alias], mods: &[Mo], key: KeyCode) -> Vec<(Vec<KeyCode>, KeyCode)> {
  let mut sets: Vec<Vec<KeyCode>> = vec![vec![]];
  for m in mods {
    match m {
      Mo::Key(k) => {
        for s in sets.iter_mut() {
          s.push(*k);
        }
      }
      Mo::Alias(a) => {
        let mut next = Vec::new();
        for s in &sets {
          for d in &aliases[*a].defs {
            let mut s2 = s.clone();
            s2.extend(d.keys.iter().cloned());
            next.push(s2);
          }
        }
        sets = next;
      }
    }
  }
  sets.into_iter().map(|mut s| { s.sort(); (s, key) }).collect()
}

pub fn gen_prog(src: &mut Src) -> Prog {
  // aliases: disjoint key pools per alias, so that no combination repeats a key
  let n_alias = src.weighted(&[20, 40, 25, 15]);
  // wide programs: multi-key aliases (up to 4 keys) and up to 4 trigger modifiers, so that
  // expanded triggers reach 7 and more keys
  let wide = src.chance(12);
  let mut pool: Vec<KeyCode> = ALIAS_KEY_POOL.to_vec();
  if wide {
    pool.extend_from_slice(&ALIAS_KEY_POOL_MORE);
  }
  let mut aliases = Vec::new();
  let names = src.distinct(&ALIAS_NAMES, n_alias);
  for name in names {
    let n_defs = src.weighted(&[40, 40, 20]) + 1;
    let mut defs = Vec::new();
    for _ in 0..n_defs {
      if pool.len() < 2 {
        break;
      }
      let n_keys = if wide { 1 + src.weighted(&[20, 30, 25, 25]) } else if src.chance(20) { 2 } else { 1 };
      let mut keys = vec![pool.remove(src.below(pool.len()))];
      while keys.len() < n_keys && pool.len() > 1 {
        keys.push(pool.remove(src.below(pool.len())));
      }
      // extra output keys; never for a lone standard modifier (undocumented combination)
      let lone_std = keys.len() == 1 && is_std_modifier(keys[0]);
      let extra = if !lone_std && src.chance(30) { let k = src.range(1, 2); src.distinct(&EXTRA_OUT_POOL, k) } else { vec![] };
      defs.push(AliasDef { keys, extra });
    }
    if !defs.is_empty() {
      aliases.push(Alias { name: name.to_string(), defs });
    }
  }
  let mut items: Vec<Item> = Vec::new();
  for (ai, a) in aliases.iter().enumerate() {
    for di in 0..a.defs.len() {
      items.push(Item::AliasDef(ai, di));
    }
  }
  let n_src = if src.chance(10) { src.range(6, 10) } else { src.range(1, 6) };
  // several repeat-only entries on one trigger set: only compared with the written-out form
  let allow_dup_ro = src.chance(40);
  let mut body: Vec<Item> = Vec::new();
  let mut repeat_only_triggers: Vec<(Vec<Mo>, KeyCode)> = Vec::new();
  let mut repeat_only_sets: Vec<(Vec<KeyCode>, KeyCode)> = Vec::new();
  for _ in 0..n_src {
    // trigger modifiers: 0-3, each alias at most once, plain keys distinct
    let n_mods = if wide { src.weighted(&[10, 25, 25, 20, 20]) } else { src.weighted(&[25, 40, 25, 10]) };
    let mut mods: Vec<Mo> = Vec::new();
    let mut plain_pool: Vec<KeyCode> = PLAIN_MOD_POOL.to_vec();
    let mut alias_pool: Vec<usize> = (0..aliases.len()).collect();
    for _ in 0..n_mods {
      if !alias_pool.is_empty() && src.chance(60) {
        mods.push(Mo::Alias(alias_pool.remove(src.below(alias_pool.len()))));
      } else if !alias_pool.is_empty() && src.chance(12) {
        // the key of a one-key definition written plainly (the alias itself is then not used in
        // this trigger): one combination of an alias-spelled entry elsewhere meets this mapping,
        // the others do not
        let ai = alias_pool.remove(src.below(alias_pool.len()));
        let singles: Vec<KeyCode> = aliases[ai].defs.iter().filter(|d| d.keys.len() == 1).map(|d| d.keys[0]).collect();
        if !singles.is_empty() {
          mods.push(Mo::Key(src.pick(&singles)));
        }
      } else if !plain_pool.is_empty() {
        mods.push(Mo::Key(plain_pool.remove(src.below(plain_pool.len()))));
      }
    }
    let used_aliases: Vec<usize> = mods.iter().filter_map(|m| if let Mo::Alias(a) = m { Some(*a) } else { None }).collect();
    let gen_out_mods = |src: &mut Src, max: usize, forbid: &[KeyCode]| -> Vec<Mo> {
      let mut out: Vec<Mo> = Vec::new();
      let n = src.below(max + 1);
      let mut ua = used_aliases.clone();
      let mut pp: Vec<KeyCode> = vec![LEFTCTRL, LEFTALT, RIGHTALT, LEFTMETA, LEFTSHIFT].into_iter().filter(|k| !forbid.contains(k)).collect();
      for _ in 0..n {
        if !ua.is_empty() && src.chance(55) {
          out.push(Mo::Alias(ua.remove(src.below(ua.len()))));
        } else if !pp.is_empty() {
          out.push(Mo::Key(pp.remove(src.below(pp.len()))));
        }
      }
      out
    };
    let absorbing: Vec<Mo> = if !mods.is_empty() && src.chance(30) { src.subset(&mods, 60) } else { vec![] };
    let kind = src.weighted(&[40, 42, 18]);
    // earlier single mappings of this program (for near-duplicates and targeted repeat-only entries)
    let mut earlier: Vec<(Vec<Mo>, KeyCode)> = body.iter().filter_map(|it| if let Item::Single { mods, key, .. } = it { Some((mods.clone(), *key)) } else { None }).collect();
    if allow_dup_ro && kind == 2 {
      earlier.extend(repeat_only_triggers.iter().cloned());
    }
    let (mods, forced_key): (Vec<Mo>, Option<KeyCode>) = if !earlier.is_empty() && ((kind == 2 && src.chance(60)) || (kind == 0 && src.chance(15))) {
      let (mut m, k) = src.pick(&earlier);
      let mut coincide: Option<(usize, KeyCode)> = None;
      let r = match src.weighted(&[if kind == 2 { 50 } else { 0 }, 30, 20, if kind == 2 { 35 } else { 10 }, if kind == 2 && allow_dup_ro { 35 } else { 0 }, if kind == 2 { 30 } else { 10 }]) {
        4 => {} // spelled exactly as before
        5 => {
          // a plain key that is a one-key definition of an alias: the alias instead
          let mut done = false;
          for pos in 0..m.len() {
            if let Mo::Key(pk) = m[pos].clone() {
              if let Some(ai) = aliases.iter().position(|a| a.defs.iter().any(|d| d.keys.len() == 1 && d.keys[0] == pk)) {
                if !m.contains(&Mo::Alias(ai)) {
                  m[pos] = Mo::Alias(ai);
                  done = true;
                  // (round 2) now and then the alias gets one more one-key definition: the final
                  // key of the targeted mapping. One combination of the entry then meets the
                  // mapping, the other names a key twice - reject or run (C14's domain; C13
                  // discards such programs)
                  if kind == 2 && src.chance(25) {
                    coincide = Some((ai, k));
                  }
                  break;
                }
              }
            }
          }
          if !done {
            src.shuffle(&mut m);
          }
        }
        3 => {
          // an alias written out: replaced by the keys of one of its definitions
          if let Some(pos) = m.iter().position(|x| matches!(x, Mo::Alias(_))) {
            if let Mo::Alias(a) = m[pos].clone() {
              let d = &aliases[a].defs[src.below(aliases[a].defs.len())];
              m.remove(pos);
              for (j, kk) in d.keys.iter().enumerate() {
                if !m.contains(&Mo::Key(*kk)) && *kk != k {
                  m.insert((pos + j).min(m.len()), Mo::Key(*kk));
                }
              }
            }
          }
        }
        0 => src.shuffle(&mut m), // the same trigger set, modifiers possibly in another order
        1 => {
          // near-identical: one plain modifier replaced by another
          let free: Vec<KeyCode> = PLAIN_MOD_POOL.iter().cloned().filter(|p| !m.contains(&Mo::Key(*p)) && *p != k).collect();
          if let (Some(pos), false) = (m.iter().position(|x| matches!(x, Mo::Key(_))), free.is_empty()) {
            m[pos] = Mo::Key(src.pick(&free));
          } else if !free.is_empty() {
            m.push(Mo::Key(src.pick(&free)));
          }
        }
        _ => {
          if !m.is_empty() {
            let i = src.below(m.len());
            m.remove(i);
          }
        }
      };
      let _ = r;
      if let Some((ai, kk)) = coincide {
        if !aliases[ai].defs.iter().any(|d| d.keys.contains(&kk)) {
          aliases[ai].defs.push(AliasDef { keys: vec![kk], extra: vec![] });
          body.push(Item::AliasDef(ai, aliases[ai].defs.len() - 1));
        }
      }
      (m, Some(k))
    } else {
      (mods, None)
    };
    let used_aliases: Vec<usize> = mods.iter().filter_map(|m| if let Mo::Alias(a) = m { Some(*a) } else { None }).collect();
    let absorbing: Vec<Mo> = absorbing.into_iter().filter(|a| mods.contains(a)).collect();
    let gen_out_mods = |src: &mut Src, max: usize, forbid: &[KeyCode]| -> Vec<Mo> {
      let mut out: Vec<Mo> = Vec::new();
      let n = src.below(max + 1);
      let mut ua = used_aliases.clone();
      let mut pp: Vec<KeyCode> = vec![LEFTCTRL, LEFTALT, RIGHTALT, LEFTMETA, LEFTSHIFT].into_iter().filter(|k| !forbid.contains(k)).collect();
      for _ in 0..n {
        if !ua.is_empty() && src.chance(55) {
          out.push(Mo::Alias(ua.remove(src.below(ua.len()))));
        } else if !pp.is_empty() {
          out.push(Mo::Key(pp.remove(src.below(pp.len()))));
        }
      }
      out
    };
    match kind {
      0 => {
        let key = forced_key.unwrap_or_else(|| src.pick(&SINGLE_KEY_POOL));
        if mods.iter().any(|m| *m == Mo::Key(key)) {
          continue;
        }
        let to_terminal = if src.chance(12) { None } else { Some(src.pick(&OUT_KEY_POOL)) };
        let to_initial = if to_terminal.is_some() { gen_out_mods(src, 2, &[]) } else { vec![] };
        let rep = match src.weighted(&[40, 10, 20, 30]) {
          0 => SRep::Absent,
          1 => SRep::Normal,
          2 => SRep::Disabled,
          _ => {
            let terminal = if src.chance(10) { None } else { Some(src.pick(&[F20, F21, F24, C, K3])) };
            let initial = if terminal.is_some() { gen_out_mods(src, 1, &[]) } else { vec![] };
            SRep::Special { initial, terminal, delay: gen_ms(src, 400), interval: gen_ms(src, 90) }
          }
        };
        body.push(Item::Single { mods, key, to_initial, to_terminal, rep, absorbing });
      }
      1 => {
        let row = src.below(5);
        let rl = row_keys(row).len();
        let letters = gen_letters(src, rl, true);
        // an output modifier equal to the Shift a letter adds would list a key twice (C14's domain)
        let to_initial = gen_out_mods(src, 1, &[LEFTSHIFT, RIGHTSHIFT]);
        let to_initial: Vec<Mo> = to_initial.into_iter().filter(|m| match m { Mo::Alias(a) => !aliases[*a].defs.iter().any(|d| d.keys.contains(&LEFTSHIFT) || d.keys.contains(&RIGHTSHIFT)), _ => true }).collect();
        let n_letters = letters.chars().count();
        let rep = match src.weighted(&[45, 8, 22, 25]) {
          0 => RRep::Absent,
          1 => RRep::Normal,
          2 => RRep::Disabled,
          _ => {
            let rletters = gen_letters(src, n_letters, false);
            // chord modifiers before the letters: plain keys and aliases of the trigger; a Shift
            // here beside a letter that needs Shift names the key twice (nothing forbids that in
            // a chord)
            let initial = if src.chance(35) { gen_out_mods(src, 2, &[]) } else { vec![] };
            RRep::Special { initial, letters: rletters, delay: gen_ms(src, 400), interval: gen_ms(src, 90) }
          }
        };
        body.push(Item::Row { mods, row, to_initial, letters, rep, absorbing });
      }
      _ => {
        let mut key = forced_key.unwrap_or_else(|| src.pick(&[SPACE, ENTER, A, S, Q, Z, K1, J]));
        if forced_key.is_none() && src.chance(5) {
          // the final key is also a key of one definition of an alias in the trigger: that
          // combination names it twice (reject or run, C14), the others are fine
          let cands: Vec<KeyCode> = mods.iter().filter_map(|m| if let Mo::Alias(a) = m { Some(*a) } else { None }).filter(|a| aliases[*a].defs.len() >= 2).flat_map(|a| aliases[a].defs.iter().flat_map(|d| d.keys.clone()).collect::<Vec<_>>()).collect();
          if !cands.is_empty() {
            key = src.pick(&cands);
          }
        }
        if mods.iter().any(|m| *m == Mo::Key(key)) {
          continue;
        }
        // at most one repeat-only entry per expanded trigger set (two are order dependent and
        // undocumented)
        let sets = expanded_trigger_sets(&aliases, &mods, key);
        if !allow_dup_ro && sets.iter().any(|s| repeat_only_sets.contains(s)) {
          continue;
        }
        repeat_only_sets.extend(sets);
        repeat_only_triggers.push((mods.clone(), key));
        let rep = match src.weighted(&[10, 40, 50]) {
          0 => SRep::Normal,
          1 => SRep::Disabled,
          _ => {
            // chords of repeat-only entries: plain keys and aliases of the trigger; a chord may
            // name a key twice (nothing forbids it)
            let mut initial = if src.chance(50) { gen_out_mods(src, 2, &[]) } else if src.chance(40) { vec![Mo::Key(LEFTCTRL)] } else { vec![] };
            if !initial.is_empty() && src.chance(20) {
              let d = initial[src.below(initial.len())].clone();
              initial.push(d);
            }
            SRep::Special { initial, terminal: Some(src.pick(&[F19, F20, F21, F24])), delay: if src.chance(80) { 180 } else { gen_ms(src, 400) }, interval: if src.chance(80) { 30 } else { gen_ms(src, 90) } }
          }
        };
        body.push(Item::RepeatOnly { mods, key, rep });
      }
    }
  }
  // source order: alias definitions anywhere among the other items
  for it in body {
    let pos = if src.chance(25) { src.below(items.len() + 1) } else { items.len() };
    items.insert(pos, it);
  }
  Prog { aliases, items }
}

// ---- the check ------------------------------------------------------------------------------

#[derive(Clone, Debug)]
pub struct C13Case {
  pub prog: Prog,
  pub json_a: Value,
  pub json_b: Value, // the same program in another spelling
  pub reject: Option<(String, Value)>, // a must-reject mutant of json_a
}

fn expectation_json(e: &Result<Expansion, String>) -> Value {
  match e {
    Ok(e) => json!({
      "groups": e.groups.iter().map(|g| g.iter().map(|m| serde_json::to_value(m).unwrap()).collect::<Vec<_>>()).collect::<Vec<_>>(),
      "identities": e.identities.iter().map(|m| serde_json::to_value(m).unwrap()).collect::<Vec<_>>(),
    }),
    Err(why) => json!({"reject": why}),
  }
}

fn expectation_from_json(v: &Value) -> Option<Result<Expansion, String>> {
  if let Some(why) = v.get("reject").and_then(|x| x.as_str()) {
    return Some(Err(why.to_string()));
  }
  let groups: Vec<Vec<Mapping>> = serde_json::from_value(v.get("groups")?.clone()).ok()?;
  let identities: Vec<Mapping> = serde_json::from_value(v.get("identities")?.clone()).ok()?;
  Some(Ok(Expansion { groups, identities }))
}

fn case_json(c: &C13Case) -> Value {
  json!({"program": c.json_a, "respelled": c.json_b, "expected": expectation_json(&reference_expand(&c.prog)), "must_reject": c.reject.as_ref().map(|(k, v)| json!({"kind": k, "program": v}))})
}

fn gen_reject(src: &mut Src, p: &Prog, base: &Value) -> Option<(String, Value)> {
  let mut v = base.clone();
  let arr = v.get_mut("mappings")?.as_array_mut()?;
  let kind = src.below(6);
  match kind {
    0 => {
      // over-long row
      let row = src.below(5);
      let n = row_keys(row).len() + 1 + src.below(2);
      // the excess is a real letter: space padding beyond the row drops nothing and is left open
      let letters: String = std::iter::repeat('x').take(n - 1).chain(std::iter::once('y')).collect();
      arr.push(json!({"from": {"row": ROW_NAMES[row]}, "to": {"letters": letters}}));
      Some(("over-long-row".into(), v))
    }
    1 => {
      let bad = src.pick(&['\u{e9}', '\u{20ac}', '\t', '\u{1F600}', '\u{a7}', '\n']);
      let letters = format!("a{}b", bad);
      arr.push(json!({"from": {"row": "Q"}, "to": {"letters": letters}}));
      Some(("unknown-character".into(), v))
    }
    2 => {
      let pos = src.below(4);
      let m = match pos {
        0 => json!({"from": ["@undefined", "X"], "to": "Y"}),
        1 => json!({"from": ["LEFTCTRL", "X"], "to": ["@undefined", "Y"]}),
        2 => json!({"from": ["LEFTCTRL", {"row": "A"}], "to": ["@undefined", {"letters": "ab"}]}),
        _ => json!({"from": ["LEFTCTRL", "X"], "repeat": {"Special": {"keys": ["@undefined", "F24"], "delay_ms": 1, "interval_ms": 1}}}),
      };
      arr.push(m);
      Some(("undefined-alias".into(), v))
    }
    3 => {
      // alias defined but used on the output side without appearing in the trigger
      if p.aliases.is_empty() {
        return None;
      }
      let a = &p.aliases[src.below(p.aliases.len())].name;
      arr.push(json!({"from": ["LEFTCTRL", "X"], "to": [a, "Y"]}));
      Some(("alias-on-output-only".into(), v))
    }
    4 => {
      if p.aliases.is_empty() {
        return None;
      }
      let a = &p.aliases[src.below(p.aliases.len())].name;
      let m = match src.below(3) {
        0 => json!({"from": ["X", a], "to": "Y"}),
        1 => json!({"from": [a, "X"], "to": "Y", "repeat": {"Special": {"keys": a, "delay_ms": 1, "interval_ms": 1}}}),
        _ => json!({"from": [a, "X"], "to": "@other"}),
      };
      arr.push(m);
      Some(("misplaced-alias".into(), v))
    }
    _ => {
      // row Special repeat with more letters than the row maps
      arr.push(json!({"from": {"row": "A"}, "to": {"letters": "ab"}, "repeat": {"Special": {"keys": {"letters": "abc"}, "delay_ms": 1, "interval_ms": 1}}}));
      Some(("repeat-longer-than-row".into(), v))
    }
  }
}

pub fn gen_case(src: &mut Src) -> C13Case {
  let prog = gen_prog(src);
  let json_a = {
    let mut sp = Spell { src, vary: false };
    render(&prog, &mut sp)
  };
  let json_b = {
    let mut sp = Spell { src, vary: true };
    render(&prog, &mut sp)
  };
  let reject = if src.chance(35) { gen_reject(src, &prog, &json_a) } else { None };
  C13Case { prog, json_a, json_b, reject }
}

pub fn run_case(c: &C13Case, stats: &mut Stats) -> Result<(), Violation> {
  let expect = reference_expand(&c.prog);
  let actual = load_value(&c.json_a);
  match (&expect, &actual) {
    (Ok(e), _) if e.groups.iter().flatten().chain(e.identities.iter()).any(|m| has_dup(&m.from) || has_dup(&m.to)) => {
      // a key twice in one trigger or output: C14's domain
      stats.discards += 1;
      stats.label("excluded:duplicate-key-in-expansion");
      return Ok(());
    }
    (Ok(_), Ok(_)) if repeat_only_sets(&c.prog).1 => {
      // several repeat-only entries reach one trigger set: which of them decides is not
      // documented, so the reference expansion is not consulted; the written-out form below is
      stats.label("several-repeat-only-entries-on-one-trigger");
    }
    (Ok(e), Ok(l)) => {
      if !matches_expansion(&l.mappings, e) {
        let exp_text: Vec<String> = e.groups.iter().map(|g| format!("{{{}}}", g.iter().map(mapping_text).collect::<Vec<_>>().join(" | "))).collect();
        return Err(Violation::new(
          "expansion-differs",
          format!("program {} converts to [{}] but its hand-written expansion is groups [{}] + identities [{}]", c.json_a, layout_text(l), exp_text.join(", "), e.identities.iter().map(mapping_text).collect::<Vec<_>>().join("; ")),
        ));
      }
    }
    (Ok(_), Err(_)) if c.prog.has_negative_time() => {
      stats.label("negative-time-rejected(left-open)");
    }
    (Ok(_), Err(msg)) => {
      return Err(Violation::new("valid-program-rejected", format!("program {} was rejected ({}) although every shorthand in it has a hand-written expansion", c.json_a, msg)));
    }
    (Err(why), Ok(l)) => {
      return Err(Violation::new("invalid-program-accepted", format!("program {} should be rejected ({}) but converts to [{}]", c.json_a, why, layout_text(l))));
    }
    (Err(_), Err(_)) => {
      stats.label("both-reject");
    }
  }
  // written out by hand (programs with repeat-only entries)
  if c.prog.items.iter().any(|it| matches!(it, Item::RepeatOnly { .. })) {
    if let (Ok(l), Ok((wv, sizes))) = (&actual, written_out(&c.prog)) {
      match load_value(&wv) {
        Ok(w) => {
          let (ro_sets, shared) = repeat_only_sets(&c.prog);
          stats.label("written-out-form-compared");
          if !same_conversion(&l.mappings, &w.mappings, &sizes, &ro_sets) {
            return Err(Violation::new(
              "written-out-form-differs",
              format!("program {} converts to [{}] but the same program with every shorthand written out by hand, {}, converts to [{}]{}", c.json_a, layout_text(l), wv, layout_text(&w), if shared { " (several repeat-only entries reach one trigger set)" } else { "" }),
            ));
          }
        }
        Err(_) => {
          // the shorthand form is accepted, the written-out form is not: left open (a loader may
          // be stricter about plain entries, e.g. negative times)
          stats.label("written-out-form-rejected(left-open)");
        }
      }
    }
  }
  // respelling
  let b = load_value(&c.json_b);
  match (&actual, &b) {
    (Ok(x), Ok(y)) => {
      if x.mappings != y.mappings {
        return Err(Violation::new("respelling-changes-result", format!("{} and {} are the same program in two spellings but convert to [{}] and [{}]", c.json_a, c.json_b, layout_text(x), layout_text(y))));
      }
    }
    (Err(_), Err(_)) => {}
    (Ok(_), Err(e)) => {
      return Err(Violation::new("respelling-changes-result", format!("{} is accepted but its respelling {} is rejected: {}", c.json_a, c.json_b, e)));
    }
    (Err(e), Ok(_)) => {
      return Err(Violation::new("respelling-changes-result", format!("{} is rejected ({}) but its respelling {} is accepted", c.json_a, e, c.json_b)));
    }
  }
  // rejection
  if let Some((kind, v)) = &c.reject {
    stats.label(&format!("must-reject:{}", kind));
    if let Ok(l) = load_value(v) {
      return Err(Violation::new("invalid-program-accepted", format!("program {} must be rejected ({}) but converts to [{}]", v, kind, layout_text(&l))));
    }
  }
  // evidence
  if let Ok(e) = &expect {
    let used_multi = c.prog.items.iter().any(|it| {
      let mods = match it {
        Item::Single { mods, .. } | Item::Row { mods, .. } | Item::RepeatOnly { mods, .. } => mods,
        _ => return false,
      };
      mods.iter().any(|m| if let Mo::Alias(a) = m { c.prog.aliases[*a].defs.len() >= 2 } else { false })
    });
    let shifted = c.prog.items.iter().any(|it| if let Item::Row { letters, .. } = it { letters.chars().any(|ch| char_key(ch).map(|(s, _)| s).unwrap_or(false)) } else { false });
    let ro = c.prog.items.iter().any(|it| matches!(it, Item::RepeatOnly { .. }));
    if used_multi {
      stats.label("alias-with-2+-definitions-used");
    }
    if shifted {
      stats.label("shifted-character");
    }
    if ro {
      stats.label("repeat-only-entry");
    }
    if !e.identities.is_empty() {
      stats.label("identity-mapping-added");
    }
    if c.prog.items.iter().any(|it| matches!(it, Item::Row { .. })) {
      stats.label("row-mapping");
    }
    stats.count("expanded-mappings", e.groups.iter().map(|g| g.len() as u64).sum::<u64>() + e.identities.len() as u64);
    if used_multi || shifted || ro {
      stats.label("non-trivial");
      stats.nontrivial_case(hash64(&c.json_a.to_string()));
      if stats.want_nontrivial_sample() && c.prog.items.len() <= 5 {
        stats.nontrivial_samples.push(case_json(c));
      }
    } else if stats.want_sample() && c.prog.items.len() <= 4 {
      stats.samples.push(case_json(c));
    }
  }
  Ok(())
}

// Every printable US-QWERTY character at every position of every row, with and without right
// Shift in the trigger: the table part of the property, enumerated.
pub fn enumerate_tables(stats: &mut Stats) -> Result<(), Violation> {
  for row in 0..5 {
    let rk = row_keys(row);
    for (lo, hi, key) in US_QWERTY {
      for ch in [*lo, *hi] {
        for pos in 0..rk.len() {
          for right in [false, true] {
            let letters: String = std::iter::repeat(' ').take(pos).chain(std::iter::once(ch)).collect();
            let from: Value = if right { json!(["RIGHTSHIFT", {"row": ROW_NAMES[row]}]) } else { json!({"row": ROW_NAMES[row]}) };
            let prog = json!({"mappings": [{"from": from, "to": {"letters": letters}}]});
            stats.evaluations += 1;
            let l = load_value(&prog).map_err(|e| Violation::new("valid-program-rejected", format!("program {} rejected: {}", prog, e)))?;
            let shifted = ch == *hi;
            let mut to = Vec::new();
            if shifted {
              to.push(if right { RIGHTSHIFT } else { LEFTSHIFT });
            }
            to.push(*key);
            let mut f = Vec::new();
            if right {
              f.push(RIGHTSHIFT);
            }
            f.push(rk[pos]);
            let expect = vec![Mapping { from: f, to, repeat: Repeat::Normal, absorbing: vec![] }];
            if l.mappings != expect {
              return Err(Violation::new("expansion-differs", format!("program {} converts to [{}], expected [{}]", prog, layout_text(&l), layout_text(&Layout { mappings: expect }))));
            }
            stats.nontrivial_case(hash64(&prog.to_string()));
          }
        }
      }
    }
  }
  stats.count("table-entries-enumerated", 1);
  Ok(())
}

pub fn check(cfg: &RunCfg, _findings: &Findings) -> Report {
  let mut rep = Report::new(
    "C13",
    "translation_validation",
    "program = layout written with alias definitions (1-3 definitions of 1-2 keys, with or without extra output keys), single, row (all five rows, letters over the 94 printable US-QWERTY characters and space) and repeat-only mappings; each is converted by the real loader and compared with an independent reference expansion (source order between source mappings, multiset within one, repeat-only identities as a multiset), with a respelling of itself, and a must-reject mutant; non-trivial = uses an alias with >=2 definitions, a shifted character or a repeat-only entry; distinct = hash of the program text; plus the exhaustive (row x character x position x right-shift) table sweep",
  );
  let quick = cfg.tier == Tier::Quick;
  // regressions
  let reg_dir = format!("{}/regressions/C13", crate::findings::verif_dir());
  if let Ok(rd) = std::fs::read_dir(&reg_dir) {
    let mut files: Vec<_> = rd.filter_map(|e| e.ok()).map(|e| e.path()).collect();
    files.sort();
    for f in files {
      if let Ok(v) = serde_json::from_str::<Value>(&std::fs::read_to_string(&f).unwrap_or_default()) {
        let _ = v;
      }
    }
  }
  let mut st0 = Stats::new();
  if let Err(v) = run_guarded(|| enumerate_tables(&mut st0)) {
    let path = write_replay("C13", &v, &json!({"table_sweep": true}));
    rep.violations.push((v, path));
    return rep;
  }
  let table_evals = st0.evaluations;
  rep.stats.merge(st0);
  let (st, fail) = run_prop(
    cfg,
    "C13-programs",
    16,
    if quick { 90_000 } else { 250_000 },
    64,
    700,
    |src: &mut Src| gen_case(src),
    |c: &C13Case, stats: &mut Stats| run_case(c, stats),
  );
  rep.stats.merge(st);
  let programs = rep.stats.evaluations;
  rep.extra.insert("programs".into(), json!(programs));
  rep.extra.insert("disagreements_checked".into(), json!(programs - rep.stats.discards));
  rep.extra.insert("table_sweep_programs".into(), json!(table_evals));
  if let Some(f) = fail {
    let path = write_replay("C13", &f.violation, &case_json(&f.case));
    rep.violations.push((f.violation, path));
    return rep;
  }
  rep.assumptions = vec![
    "the reference expander and its US-QWERTY / row tables are a transcription of the README and the property text".to_string(),
    "excluded from generation as undocumented: a lone standard modifier alias definition with extra output keys, two repeat-only entries for one trigger, a row Special repeat containing a space, the same alias twice in one trigger; expansions that list a key twice in a trigger or output belong to C14 and are counted as discards".to_string(),
  ];
  rep
}

pub fn replay(file: &str) -> Result<(), Violation> {
  let text = std::fs::read_to_string(file).map_err(|e| Violation::new("io", format!("cannot read {}: {}", file, e)))?;
  let v: Value = serde_json::from_str(&text).map_err(|e| Violation::new("io", e.to_string()))?;
  let case = v.get("case").unwrap_or(&v);
  // a replay carries the concrete program texts; the reference expansion is recomputed from the
  // conversion of the respelled program (metamorphic part) and the must-reject mutant
  let a = case.get("program").ok_or_else(|| Violation::new("io", "no program".to_string()))?;
  let la = load_value(a);
  if let Some(b) = case.get("respelled") {
    let lb = load_value(b);
    match (&la, &lb) {
      (Ok(x), Ok(y)) if x.mappings != y.mappings => return Err(Violation::new("respelling-changes-result", format!("[{}] vs [{}]", layout_text(x), layout_text(y)))),
      (Ok(_), Err(e)) | (Err(e), Ok(_)) => return Err(Violation::new("respelling-changes-result", e.clone())),
      _ => {}
    }
  }
  if let Some(exp) = case.get("expected").and_then(expectation_from_json) {
    match (&exp, &la) {
      (Ok(e), Ok(l)) => {
        if !matches_expansion(&l.mappings, e) {
          return Err(Violation::new("expansion-differs", format!("converts to [{}], which is not the recorded hand-written expansion", layout_text(l))));
        }
      }
      (Ok(_), Err(e)) => return Err(Violation::new("valid-program-rejected", e.clone())),
      (Err(why), Ok(l)) => return Err(Violation::new("invalid-program-accepted", format!("should be rejected ({}) but converts to [{}]", why, layout_text(l)))),
      (Err(_), Err(_)) => {}
    }
  }
  if let Some(r) = case.get("must_reject") {
    if let Some(p) = r.get("program") {
      if let Ok(l) = load_value(p) {
        return Err(Violation::new("invalid-program-accepted", format!("converts to [{}]", layout_text(&l))));
      }
    }
  }
  Ok(())
}
