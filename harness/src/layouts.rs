// Layout generators (families of DESIGN.md section 3) and the fixed catalogue.
// Every generated layout is passed through the repository's own loader pipeline
// (serde form -> parse_layout_from_json -> convert), so the mapper always runs on exactly
// what the loader returns for it.

use crate::kb::*;
use crate::keys::{KeyCode, Layout, Mapping, Repeat};
use crate::tape::Src;
use serde_json::Value;
use KeyCode::*;

#[derive(Clone, Debug)]
pub struct GenLayout {
  pub layout: Layout,
  pub alphabet: Vec<KeyCode>, // keys a history may press physically
  pub family: String,
}

#[derive(Clone, Copy, Debug, PartialEq, Eq)]
pub enum Family {
  General,
  Tagged,
  AbsorbingDense,
  RepeatDense,
  Wide,
  Huge,
  ModDense,
  Siblings,
  Roles,
}

#[derive(Clone, Copy, Debug)]
pub struct LayoutOpts {
  pub allow_absorbing: bool,
  pub max_alphabet: usize,
}

// The loader pipeline on an in-memory layout (what load_layout_from_file does after reading
// and JSON-parsing the file that write_layout_to_global_config would have written).
pub fn through_loader(l: &Layout) -> Result<Layout, String> {
  let v = serde_json::to_value(l).map_err(|e| e.to_string())?;
  load_value(&v)
}

pub fn load_value(v: &Value) -> Result<Layout, String> {
  crate::fancy_layout_interpreting::convert(&crate::layout_parsing_formatting::parse_layout_from_json(v)?)
}

pub fn load_text(text: &str) -> Result<Layout, String> {
  let v: Value = serde_json::from_str(text).map_err(|e| e.to_string())?;
  load_value(&v)
}

fn gen_repeat(src: &mut Src, chord_pool: &[KeyCode], weights: &[u32; 3], delay_id: i32) -> Repeat {
  match src.weighted(weights) {
    0 => Repeat::Normal,
    1 => Repeat::Disabled,
    _ => {
      let n = src.below(3);
      let keys = src.distinct(chord_pool, n);
      // unique delay per mapping identifies the mapping in ResultingRepeat
      Repeat::Special { keys, delay_ms: 100 + delay_id * 10 + src.below(5) as i32, interval_ms: 10 + src.below(60) as i32 }
    }
  }
}

fn pick_foreign(src: &mut Src, used: &KeySet, out: &mut Vec<KeyCode>) {
  let nonmods: Vec<KeyCode> = FOREIGN_NONMOD.iter().cloned().filter(|k| !used.contains(*k)).collect();
  let mods: Vec<KeyCode> = FOREIGN_MOD.iter().cloned().filter(|k| !used.contains(*k)).collect();
  if !nonmods.is_empty() {
    out.push(src.pick(&nonmods));
  }
  if !mods.is_empty() {
    out.push(src.pick(&mods));
  }
}

fn finish(src: &mut Src, layout: Layout, family: &str, extra_phys: &[KeyCode], opts: &LayoutOpts, want_foreign: bool) -> GenLayout {
  let used = layout_keys(&layout);
  let mut alphabet: Vec<KeyCode> = trigger_keys(&layout).0.clone();
  for k in extra_phys {
    if !alphabet.contains(k) {
      alphabet.push(*k);
    }
  }
  if want_foreign {
    let mut f = Vec::new();
    pick_foreign(src, &used, &mut f);
    for k in f {
      if alphabet.len() < opts.max_alphabet {
        alphabet.push(k);
      }
    }
  }
  alphabet.truncate(opts.max_alphabet.max(1));
  GenLayout { layout, alphabet, family: family.to_string() }
}

// *general*: 1-6 mappings, trigger length 1-3, output length 0-3 (including trigger keys,
// identity and swaps), all repeat modes, absorbing subsets of the trigger modifiers.
pub fn gen_general(src: &mut Src, opts: &LayoutOpts) -> GenLayout {
  let mod_pool = [LEFTSHIFT, CAPSLOCK, LEFTCTRL, TAB, RIGHTALT, GRAVE, LEFTALT, RIGHTSHIFT];
  let n_mods = src.range(1, 3);
  let mods = src.distinct(&mod_pool, n_mods);
  let n_finals = src.range(1, 3);
  let finals = src.distinct(&ORDINARY, n_finals);
  let mut out_pool: Vec<KeyCode> = Vec::new();
  out_pool.extend(finals.iter().cloned());
  out_pool.extend(mods.iter().cloned());
  out_pool.push(src.pick(&ORDINARY));
  out_pool.push(src.pick(&STD_MODIFIERS));
  out_pool.push(src.pick(&STD_MODIFIERS));
  out_pool.push(TAGS[src.below(3)]);
  out_pool.push(TAGS[3 + src.below(3)]);
  let mut dedup: Vec<KeyCode> = Vec::new();
  for k in out_pool {
    if !dedup.contains(&k) {
      dedup.push(k);
    }
  }
  let out_pool = dedup;
  let n = src.range(1, 6);
  let mut mappings = Vec::new();
  for i in 0..n {
    // final key: mostly an ordinary key, sometimes one of the modifiers (single-key remaps of
    // CAPSLOCK etc.)
    let final_key = if src.chance(25) { src.pick(&mods) } else { src.pick(&finals) };
    let avail: Vec<KeyCode> = mods.iter().cloned().filter(|k| *k != final_key).collect();
    let n_trig_mods = src.weighted(&[35, 45, 20]).min(avail.len());
    let mut from = src.distinct(&avail, n_trig_mods);
    from.push(final_key);
    let n_out = src.weighted(&[15, 45, 30, 10]);
    let to = src.distinct(&out_pool, n_out);
    let repeat = gen_repeat(src, &out_pool, &[60, 20, 20], i as i32);
    let mut absorbing = Vec::new();
    if opts.allow_absorbing && from.len() > 1 && src.chance(35) {
      for k in &from[..from.len() - 1] {
        if src.chance(70) {
          absorbing.push(*k);
        }
      }
    }
    mappings.push(Mapping { from, to, repeat, absorbing });
  }
  let layout = Layout { mappings };
  // physically pressable: trigger keys plus up to two output-only keys
  let mut extra = Vec::new();
  let trig = trigger_keys(&layout);
  for k in &out_pool {
    if !trig.contains(*k) && !TAGS.contains(k) && extra.len() < 2 && src.chance(50) {
      extra.push(*k);
    }
  }
  finish(src, layout, "general", &extra, opts, true)
}

// *tagged*: every key-producing mapping ends in its own tag key that occurs nowhere else;
// the other mappings have empty or modifier-only output.
pub fn gen_tagged(src: &mut Src, opts: &LayoutOpts, repeat_weights: &[u32; 3], family: &str) -> GenLayout {
  let mod_pool = [LEFTSHIFT, CAPSLOCK, LEFTCTRL, TAB, RIGHTALT, GRAVE];
  let n_mods = src.range(1, 3);
  let mods = src.distinct(&mod_pool, n_mods);
  let n_finals = src.range(1, 3);
  let finals = src.distinct(&ORDINARY, n_finals);
  let out_mod_pool: Vec<KeyCode> = {
    let mut v = vec![LEFTSHIFT, LEFTCTRL, LEFTMETA];
    for m in &mods {
      if is_modifier(*m) && !v.contains(m) {
        v.push(*m);
      }
    }
    v
  };
  let n = src.range(1, 6);
  let mut mappings = Vec::new();
  let mut next_tag = 0usize;
  let mut chord_pool: Vec<KeyCode> = Vec::new();
  chord_pool.extend(out_mod_pool.iter().cloned());
  chord_pool.extend(mods.iter().cloned());
  chord_pool.push(KeyCode::F1);
  chord_pool.push(KeyCode::F2);
  let mut cp: Vec<KeyCode> = Vec::new();
  for k in chord_pool {
    if !cp.contains(&k) {
      cp.push(k);
    }
  }
  let chord_pool = cp;
  for i in 0..n {
    let final_key = if src.chance(25) { src.pick(&mods) } else { src.pick(&finals) };
    let avail: Vec<KeyCode> = mods.iter().cloned().filter(|k| *k != final_key).collect();
    let n_trig_mods = src.weighted(&[30, 50, 20]).min(avail.len());
    let mut from = src.distinct(&avail, n_trig_mods);
    from.push(final_key);
    // output shape: tag / [mods.., tag] / [] / [modifier(s)]
    let shape = src.weighted(&[40, 30, 12, 18]);
    let to: Vec<KeyCode> = match shape {
      0 => {
        let t = TAGS[next_tag % TAGS.len()];
        next_tag += 1;
        vec![t]
      }
      1 => {
        let k = src.range(1, 2);
        let mut v = src.distinct(&out_mod_pool, k);
        let t = TAGS[next_tag % TAGS.len()];
        next_tag += 1;
        v.push(t);
        v
      }
      2 => vec![],
      _ => {
        let k = src.range(1, 2);
        src.distinct(&out_mod_pool, k)
      }
    };
    let repeat = gen_repeat(src, &chord_pool, repeat_weights, i as i32);
    let mut absorbing = Vec::new();
    if opts.allow_absorbing && from.len() > 1 && src.chance(35) {
      for k in &from[..from.len() - 1] {
        if src.chance(70) {
          absorbing.push(*k);
        }
      }
    }
    mappings.push(Mapping { from, to, repeat, absorbing });
    if next_tag >= TAGS.len() {
      break;
    }
  }
  let layout = Layout { mappings };
  finish(src, layout, family, &[], opts, true)
}

// *absorbing-dense*: two modifiers, two final keys, 3-5 mappings over all
// (modifier subset x final key) triggers, outputs in {tag, [], [modifier], [M, tag]},
// absorbing with probability 0.6. The C08 corner lives here.
pub fn gen_absorbing_dense(src: &mut Src, opts: &LayoutOpts) -> GenLayout {
  let mod_pool = [LEFTSHIFT, CAPSLOCK, RIGHTALT, LEFTCTRL];
  let mods = src.distinct(&mod_pool, 2);
  let finals = [A, B];
  let n = src.range(3, 5);
  let mut mappings = Vec::new();
  let mut next_tag = 0usize;
  for i in 0..n {
    let final_key = finals[src.below(2)];
    let subset = src.weighted(&[20, 30, 30, 20]); // none, first, second, both
    let mut from: Vec<KeyCode> = match subset {
      0 => vec![],
      1 => vec![mods[0]],
      2 => vec![mods[1]],
      _ => {
        if src.chance(50) {
          vec![mods[1], mods[0]]
        } else {
          vec![mods[0], mods[1]]
        }
      }
    };
    from.push(final_key);
    let shape = src.weighted(&[40, 15, 15, 22, 8]);
    let to: Vec<KeyCode> = match shape {
      4 => {
        // key first, modifier last: legal, and not what the code calls a key-producing mapping
        let m = src.pick(&[LEFTSHIFT, mods[0], mods[1], LEFTCTRL]);
        let t = TAGS[next_tag];
        next_tag += 1;
        vec![t, m]
      }
      0 => {
        let t = TAGS[next_tag];
        next_tag += 1;
        vec![t]
      }
      1 => vec![],
      2 => vec![src.pick(&[LEFTSHIFT, LEFTCTRL, mods[0], mods[1]])],
      _ => {
        let m = src.pick(&[LEFTSHIFT, mods[0], mods[1], LEFTCTRL]);
        let t = TAGS[next_tag];
        next_tag += 1;
        vec![m, t]
      }
    };
    let to: Vec<KeyCode> = {
      // CAPSLOCK as an "output modifier" is fine for the mapper; keep keys distinct
      let mut v: Vec<KeyCode> = Vec::new();
      for k in to {
        if !v.contains(&k) {
          v.push(k);
        }
      }
      v
    };
    let mut absorbing = Vec::new();
    if from.len() > 1 && src.chance(60) {
      for k in &from[..from.len() - 1] {
        if src.chance(75) {
          absorbing.push(*k);
        }
      }
      if absorbing.is_empty() {
        absorbing.push(from[0]);
      }
    }
    let repeat = if src.chance(15) { gen_repeat(src, &[LEFTCTRL, F1], &[0, 50, 50], i as i32) } else { Repeat::Normal };
    mappings.push(Mapping { from, to, repeat, absorbing });
  }
  let layout = Layout { mappings };
  let mut extra = Vec::new();
  // make sure both modifiers and both finals can be pressed even if unused by a trigger
  for k in mods.iter().chain(finals.iter()) {
    extra.push(*k);
  }
  finish(src, layout, "absorbing-dense", &extra, opts, src_flag_foreign(opts))
}

// *siblings*: 3-7 mappings over a pool of five keys (three modifier-like keys: standard
// modifiers and 0-2 keys such as CAPSLOCK; two ordinary keys) in which any key may end a trigger. About half of the
// mappings are derived from an earlier one: same final key, one trigger key more or fewer,
// absorbing list, output shape and repeat mode drawn anew. That gives the *relations* between
// mappings that multi-step defects depend on - a chord and its plainer version, two chords that
// differ in one held key, a key that is a modifier here and a trigger there, a mapping without
// output beside a key-producing one on the same key - in a space small enough for the sweep.
pub fn gen_siblings(src: &mut Src, opts: &LayoutOpts) -> GenLayout {
  // three modifier-like keys: standard modifiers (a plain press of one lifts nothing) and 0-2
  // keys such as CAPSLOCK (which are ordinary keys to the mapper unless mapped)
  let n_like = src.weighted(&[40, 45, 15]);
  // three modifier-like and two ordinary keys, or (35 %) two and three
  let n_modlike = if src.chance(35) { 2 } else { 3 };
  let n_like = n_like.min(n_modlike);
  let mut keys: Vec<KeyCode> = src.distinct(&[LEFTSHIFT, RIGHTALT, LEFTCTRL, RIGHTSHIFT], n_modlike - n_like);
  // (Z: an ordinary letter used as a layer key, as SPACE or a home-row key is in real layouts)
  keys.extend(src.distinct(&[CAPSLOCK, TAB, Z], n_like));
  keys.extend(src.distinct(&[A, B, Q], 5 - n_modlike));
  let modlike: Vec<KeyCode> = keys[..n_modlike].to_vec();
  let ordinary: Vec<KeyCode> = keys[n_modlike..].to_vec();
  // one output modifier from outside the pool
  let outside: Vec<KeyCode> = [LEFTALT, LEFTMETA, RIGHTCTRL].to_vec();
  let outside_mod = src.pick(&outside);
  let n = src.range(3, 7);
  let mut mappings: Vec<Mapping> = Vec::new();
  let mut next_tag = 0usize;
  for i in 0..n {
    let (mut prefix, final_key): (Vec<KeyCode>, KeyCode) = if i > 0 && src.chance(55) {
      let base = &mappings[src.below(i)];
      let fk = *base.from.last().unwrap();
      let mut prefix: Vec<KeyCode> = base.from[..base.from.len() - 1].to_vec();
      match src.weighted(&[50, 25, 25]) {
        0 => {
          let cands: Vec<KeyCode> = keys.iter().cloned().filter(|k| *k != fk && !prefix.contains(k)).collect();
          // mostly a modifier-like key
          let ml: Vec<KeyCode> = cands.iter().cloned().filter(|k| modlike.contains(k)).collect();
          if !ml.is_empty() && src.chance(80) {
            let k = src.pick(&ml);
            if src.chance(50) { prefix.push(k) } else { prefix.insert(0, k) }
          } else if !cands.is_empty() {
            prefix.push(src.pick(&cands));
          }
        }
        1 => {
          if !prefix.is_empty() {
            let j = src.below(prefix.len());
            prefix.remove(j);
          }
        }
        _ => {}
      }
      (prefix, fk)
    } else {
      let fk = if src.chance(75) { src.pick(&ordinary) } else { src.pick(&modlike) };
      let mut avail: Vec<KeyCode> = modlike.iter().cloned().filter(|k| *k != fk).collect();
      if src.chance(15) {
        avail.extend(ordinary.iter().cloned().filter(|k| *k != fk));
      }
      let np = src.weighted(&[25, 45, 30]).min(avail.len());
      (src.distinct(&avail, np), fk)
    };
    prefix.truncate(3);
    let mut mod_pool: Vec<KeyCode> = prefix.clone();
    mod_pool.extend(modlike.iter().cloned());
    mod_pool.push(outside_mod);
    let to: Vec<KeyCode> = match src.weighted(&[30, 15, 12, 25, 8, 10]) {
      0 => {
        next_tag += 1;
        vec![TAGS[next_tag - 1]]
      }
      1 => vec![],
      2 => vec![src.pick(&mod_pool)],
      3 => {
        next_tag += 1;
        vec![src.pick(&mod_pool), TAGS[next_tag - 1]]
      }
      4 => {
        next_tag += 1;
        vec![TAGS[next_tag - 1], src.pick(&mod_pool)]
      }
      _ => vec![src.pick(&ordinary)],
    };
    let mut to_d: Vec<KeyCode> = Vec::new();
    for k in to {
      if !to_d.contains(&k) {
        to_d.push(k);
      }
    }
    let mut absorbing = Vec::new();
    if opts.allow_absorbing && !prefix.is_empty() && src.chance(60) {
      for k in &prefix {
        if src.chance(70) {
          absorbing.push(*k);
        }
      }
      if absorbing.is_empty() {
        absorbing.push(prefix[0]);
      }
    }
    let repeat = gen_repeat(src, &[modlike[0], F1, modlike[modlike.len() - 1]], &[65, 10, 25], i as i32);
    let mut from = prefix;
    from.push(final_key);
    mappings.push(Mapping { from, to: to_d, repeat, absorbing });
  }
  let layout = Layout { mappings };
  finish(src, layout, "siblings", &keys, opts, src_flag_foreign(opts))
}

// *roles*: 3-5 mappings, each an instance of one of the mapping shapes that the README and the
// built-in layouts are made of, over a pool of five or six keys (one or two standard modifiers,
// one layer-like key, two or three letters): a chord that keeps its own modifier
// ([Shift,X] -> [Shift,tag]), a chord that drops it, a plain key that brings a modifier, a
// modifier remap ([CAPSLOCK] -> [Shift]), a layer key mapped to nothing, a chord that types
// another key of the pool, a key that absorbs itself, a chord that ends in a modifier, a
// no-repeat key, a two-modifier chord, a swap. Unlike in the other families the output of a
// mapping is correlated with its own trigger and with the triggers of the others (the user's own
// modifier and a mapping's modifier are the same key; an output key is somebody's trigger), and
// every key is pressable - the relations between three or four *realistic* mappings that the
// other families produce only by accident, in a space small enough for the sweep.
pub fn gen_roles(src: &mut Src, opts: &LayoutOpts) -> GenLayout {
  let std = src.distinct(&[LEFTSHIFT, RIGHTALT, LEFTCTRL, RIGHTSHIFT], 2);
  let (s1, s2) = (std[0], std[1]);
  let layer = src.pick(&[CAPSLOCK, TAB, Z, F]);
  let letters = src.distinct(&[A, B, Q, J], 3);
  // the pool: s1, layer, two letters; plus s2, a third letter or both
  let extra = src.weighted(&[35, 35, 30]);
  let mut mods: Vec<KeyCode> = vec![s1];
  let mut lets: Vec<KeyCode> = vec![letters[0], letters[1]];
  if extra == 0 || extra == 2 {
    mods.push(s2);
  }
  if extra == 1 || extra == 2 {
    lets.push(letters[2]);
  }
  let m_out = src.pick(&[LEFTALT, LEFTMETA, RIGHTCTRL]);
  let mut holdable: Vec<KeyCode> = mods.clone(); // keys used as the held part of a chord
  holdable.push(layer);
  let mut pool: Vec<KeyCode> = holdable.clone();
  pool.extend(lets.iter().cloned());
  let out_mods: Vec<KeyCode> = { let mut v = mods.clone(); v.push(m_out); v };
  let n = src.range(3, 5);
  let mut mappings: Vec<Mapping> = Vec::new();
  let mut next_tag = 0usize;
  for i in 0..n {
    if next_tag + 1 >= TAGS.len() {
      break;
    }
    let p = if src.chance(70) { src.pick(&mods) } else { src.pick(&holdable) };
    let x = if src.chance(85) { src.pick(&lets) } else { src.pick(&pool) };
    let others: Vec<KeyCode> = pool.iter().cloned().filter(|k| *k != x && *k != p).collect();
    let y = src.pick(&others);
    let q = src.pick(&out_mods);
    let mut tag = || {
      next_tag += 1;
      TAGS[next_tag - 1]
    };
    let mut absorbing: Vec<KeyCode> = Vec::new();
    let mut norepeat = false;
    let (mut from, to): (Vec<KeyCode>, Vec<KeyCode>) = match src.weighted(&[14, 10, 12, 12, 5, 8, 8, 8, 8, 6, 5, 4]) {
      0 => (vec![p, x], vec![p, tag()]),
      1 => (vec![x], vec![q, tag()]),
      2 => (vec![if src.chance(50) { layer } else { x }], vec![q]),
      3 => (vec![p, x], vec![tag()]),
      4 => (vec![layer], vec![]),
      5 => (vec![p, x], vec![y]),
      6 => {
        if opts.allow_absorbing {
          absorbing.push(y);
          (vec![y, x], vec![y])
        } else {
          (vec![y, x], vec![y, tag()])
        }
      }
      7 => (vec![p, x], vec![q]),
      8 => {
        norepeat = true;
        (vec![x], if src.chance(50) { vec![y] } else { vec![tag()] })
      }
      9 => {
        let p2 = src.pick(&others.iter().cloned().filter(|k| holdable.contains(k)).collect::<Vec<_>>().iter().cloned().chain(std::iter::once(y)).collect::<Vec<_>>());
        (vec![p, p2, x], if src.chance(50) { vec![tag()] } else { vec![p, tag()] })
      }
      10 => (vec![x], vec![tag()]),
      _ => (vec![x], vec![y]),
    };
    if x == p {
      // (x was drawn from the whole pool) a chord cannot hold its own final key
      from.retain(|k| *k != p);
      from.push(x);
    }
    let mut to_d: Vec<KeyCode> = Vec::new();
    for k in to {
      if !to_d.contains(&k) {
        to_d.push(k);
      }
    }
    if opts.allow_absorbing && absorbing.is_empty() && from.len() > 1 && src.chance(25) {
      for k in &from[..from.len() - 1] {
        if src.chance(70) {
          absorbing.push(*k);
        }
      }
      if absorbing.is_empty() {
        absorbing.push(from[0]);
      }
    }
    let repeat = if norepeat { gen_repeat(src, &[s1, F1, m_out], &[0, 55, 45], i as i32) } else { gen_repeat(src, &[s1, F1, m_out], &[88, 5, 7], i as i32) };
    mappings.push(Mapping { from, to: to_d, repeat, absorbing });
  }
  let layout = Layout { mappings };
  finish(src, layout, "roles", &pool, opts, src_flag_foreign(opts))
}

fn src_flag_foreign(opts: &LayoutOpts) -> bool {
  opts.max_alphabet > 4
}

pub fn gen_repeat_dense(src: &mut Src, opts: &LayoutOpts) -> GenLayout {
  gen_tagged(src, opts, &[40, 25, 35], "repeat-dense")
}

pub fn gen_family(src: &mut Src, fam: Family, opts: &LayoutOpts) -> GenLayout {
  let mut g = match fam {
    Family::General => gen_general(src, opts),
    Family::Tagged => gen_tagged(src, opts, &[70, 15, 15], "tagged"),
    Family::AbsorbingDense => gen_absorbing_dense(src, opts),
    Family::RepeatDense => gen_repeat_dense(src, opts),
    Family::Wide => gen_wide(src, opts),
    Family::Huge => gen_huge(src, opts),
    Family::ModDense => gen_mod_dense(src, opts),
    Family::Siblings => gen_siblings(src, opts),
    Family::Roles => gen_roles(src, opts),
  };
  // key-code diversity: the small readable pools are relabelled onto the whole key space
  if fam != Family::Huge && src.chance(35) {
    relabel(src, &mut g);
  }
  g
}

// *wide*: sizes far beyond the small families - many mappings on few final keys, many distinct
// trigger modifiers, many distinct absorbed keys (counts near 8, 16, 32, 64).
pub fn gen_wide(src: &mut Src, opts: &LayoutOpts) -> GenLayout {
  let n = src.pick(&[9usize, 10, 12, 16, 17, 24, 31, 32, 33, 40, 64, 66]);
  let mod_pool: Vec<KeyCode> = vec![LEFTSHIFT, RIGHTSHIFT, LEFTCTRL, RIGHTCTRL, LEFTALT, RIGHTALT, LEFTMETA, RIGHTMETA, CAPSLOCK, TAB, GRAVE, BACKSLASH, ESC, F1, F2, F3];
  let n_finals = 1 + src.weighted(&[60, 30, 10]);
  let finals = src.distinct(&ORDINARY, n_finals);
  let mut mappings = Vec::new();
  // layer keys that are not standard modifiers usually get their own `KEY -> []` mapping (as
  // the README recommends), so that holding them passes nothing through
  // "one-shot modifier" style: every chord has one modifier and absorbs it
  let oneshot = src.chance(40);
  let full_layer = oneshot || src.chance(65);
  for k in mod_pool.iter().filter(|k| !is_modifier(**k)) {
    if full_layer || src.chance(30) {
      mappings.push(Mapping { from: vec![*k], to: vec![], repeat: Repeat::Normal, absorbing: vec![] });
    }
  }
  let mut tag_i = 0usize;
  let tag_pool: Vec<KeyCode> = nonmod_codes().iter().cloned().filter(|k| code_of(*k) >= 183 && code_of(*k) <= 560).collect();
  for i in 0..n {
    let final_key = src.pick(&finals);
    let n_trig = if oneshot { 1 } else { src.weighted(&[10, 45, 30, 15]) };
    let mut from = if oneshot { vec![mod_pool[(i + src.below(3)) % mod_pool.len()]] } else { src.distinct(&mod_pool, n_trig) };
    from.push(final_key);
    let shape = src.weighted(&[50, 20, 30]);
    let to: Vec<KeyCode> = match shape {
      0 => {
        tag_i += 1;
        vec![tag_pool[(tag_i * 7) % tag_pool.len()]]
      }
      1 => vec![],
      _ => {
        tag_i += 1;
        let m = src.pick(&[LEFTSHIFT, LEFTCTRL, LEFTALT, LEFTMETA]);
        vec![m, tag_pool[(tag_i * 7) % tag_pool.len()]]
      }
    };
    let mut absorbing = Vec::new();
    if opts.allow_absorbing && from.len() > 1 && src.chance(if oneshot { 90 } else { 55 }) {
      // distinct absorbed keys across the layout: rotate through the trigger modifiers
      absorbing.push(from[i % (from.len() - 1)]);
      if from.len() > 2 && src.chance(30) {
        let other = from[(i + 1) % (from.len() - 1)];
        if !absorbing.contains(&other) {
          absorbing.push(other);
        }
      }
    }
    let repeat = if src.chance(20) { gen_repeat(src, &[LEFTCTRL, F1, LEFTSHIFT], &[0, 50, 50], i as i32) } else { Repeat::Normal };
    mappings.push(Mapping { from, to, repeat, absorbing });
  }
  let layout = Layout { mappings };
  let mut o2 = *opts;
  o2.max_alphabet = o2.max_alphabet.max(20);
  finish(src, layout, "wide", &[], &o2, true)
}

// *modifier-dense*: 3-6 mappings on single keys (sometimes one trigger modifier) whose outputs
// are drawn from two output modifiers S, T and distinguished keys: [S,tag], [T,tag], [S,T,tag],
// [S], [T], [S,T], [tag]. Overlapping chords, modifier-remaps that re-press a chord's modifier,
// shared outputs - the interplay C04, C05 and C19 are about - in a space small enough for the
// sweep to cover every order.
pub fn gen_mod_dense(src: &mut Src, opts: &LayoutOpts) -> GenLayout {
  let out_mods = src.distinct(&[LEFTSHIFT, LEFTCTRL, LEFTALT, LEFTMETA], 2);
  let (s_mod, t_mod) = (out_mods[0], out_mods[1]);
  let keys = src.distinct(&[A, B, C, Q, W, CAPSLOCK, TAB], 5);
  let n = src.range(3, 6);
  let mut mappings = Vec::new();
  let mut next_tag = 0usize;
  let mut tag = |next_tag: &mut usize| {
    let t = TAGS[*next_tag % TAGS.len()];
    *next_tag += 1;
    t
  };
  for i in 0..n {
    let final_key = keys[src.below(keys.len())];
    let mut from: Vec<KeyCode> = Vec::new();
    match src.weighted(&[60, 20, 20]) {
      1 => {
        let m = keys[src.below(keys.len())];
        if m != final_key {
          from.push(m);
        }
      }
      // a chord on one of the output modifiers themselves (Shift+key -> Shift+other key, or a key
      // without the Shift): the user's own modifier and a mapping's modifier are the same key
      2 => from.push(if src.chance(65) { s_mod } else { t_mod }),
      _ => {}
    }
    from.push(final_key);
    let to: Vec<KeyCode> = match src.weighted(&[22, 22, 8, 14, 14, 5, 15]) {
      0 => vec![s_mod, tag(&mut next_tag)],
      1 => vec![t_mod, tag(&mut next_tag)],
      2 => vec![s_mod, t_mod, tag(&mut next_tag)],
      3 => vec![s_mod],
      4 => vec![t_mod],
      5 => vec![s_mod, t_mod],
      _ => vec![tag(&mut next_tag)],
    };
    let repeat = gen_repeat(src, &[s_mod, F1], &[80, 10, 10], i as i32);
    mappings.push(Mapping { from, to, repeat, absorbing: vec![] });
  }
  let layout = Layout { mappings };
  finish(src, layout, "modifier-dense", &[s_mod, t_mod], opts, true)
}

// *huge*: hundreds of mappings (counts around 256 and 512), every one with its own trigger, its
// own distinguished output and its own Special chord - tables indexed by small integers,
// per-layout caches and the like only overflow here. No absorbing.
pub fn gen_huge(src: &mut Src, _opts: &LayoutOpts) -> GenLayout {
  // (rarely a giant one around 2^16 mappings)
  let n = if src.chance(4) { src.pick(&[65_536usize, 65_537, 66_000, 70_000]) } else { src.pick(&[255usize, 256, 257, 258, 300, 511, 512, 513, 600]) };
  let nm = nonmod_codes();
  let finals: Vec<KeyCode> = nm.iter().cloned().filter(|k| code_of(*k) < 183).collect(); // ~150 keys
  let tags: Vec<KeyCode> = nm.iter().cloned().filter(|k| code_of(*k) >= 183).collect(); // ~320 keys
  let mut mappings = Vec::with_capacity(n);
  for i in 0..n {
    let f = finals[i % finals.len()];
    let layer = i / finals.len();
    let mut from: Vec<KeyCode> = Vec::new();
    if layer > 0 && layer <= 8 {
      from.push(STD_MODIFIERS[(layer - 1) % 8]);
    } else if layer > 8 {
      // layers beyond the eight modifiers: two layer keys taken from the high codes
      let l = layer - 9;
      let a = tags[l % 40];
      let b = tags[40 + (l / 40) % 40];
      from.push(a);
      from.push(b);
    }
    from.push(f);
    // (beyond the first few hundred the outputs are no longer unique, but every mapping has one)
    let to: Vec<KeyCode> = if i < tags.len() || i % 5 != 0 { vec![tags[i % tags.len()]] } else { vec![] };
    let a = tags[(i * 3 + 1) % tags.len()];
    let b = tags[(i * 5 + 2) % tags.len()];
    let keys = if a != b { vec![STD_MODIFIERS[i % 8], a, b] } else { vec![STD_MODIFIERS[i % 8], a] };
    // (giant layouts must not eat the tape: one draw per mapping only below 1000)
    let special = if n > 1000 { i % 7 != 3 } else { src.chance(85) };
    let repeat = if special { Repeat::Special { keys, delay_ms: 100 + i as i32, interval_ms: 10 + (i % 50) as i32 } } else { Repeat::Normal };
    mappings.push(Mapping { from, to, repeat, absorbing: vec![] });
  }
  let layout = Layout { mappings };
  // physically pressable: a window of final keys and the modifiers in use
  let start = src.below(finals.len());
  let mut alphabet: Vec<KeyCode> = (0..10).map(|j| finals[(start + j * 13) % finals.len()]).collect();
  for m in STD_MODIFIERS.iter().take(4) {
    alphabet.push(*m);
  }
  // some output keys can be pressed physically as well: those of late mappings and of the
  // mappings on the final key with the highest code (the far end of any table sorted by key)
  let hi = layout.mappings.iter().map(|m| *m.from.last().unwrap()).max().unwrap();
  let on_hi: Vec<&Mapping> = layout.mappings.iter().filter(|m| *m.from.last().unwrap() == hi).collect();
  let late = layout.mappings.iter().rev().take(400).step_by(57);
  for m in late.chain(on_hi.iter().rev().take(8).cloned()).chain(on_hi.iter().take(2).cloned()) {
    for k in &m.to {
      if !alphabet.contains(k) {
        alphabet.push(*k);
      }
    }
  }
  GenLayout { layout, alphabet, family: "huge".to_string() }
}

// Injective relabelling of a generated layout onto the whole key space. Standard modifiers stay
// standard modifiers (permuted among themselves), every other key goes to another non-modifier
// code. Biased toward numeric relations that small pools never contain: codes that are equal
// modulo 256, codes >= 562 (not registered with uinput), codes at bit 63 of a mask word,
// neighbours of keys already chosen.
pub fn relabel(src: &mut Src, g: &mut GenLayout) {
  use std::collections::HashMap;
  let mut keys: Vec<KeyCode> = layout_keys(&g.layout).0.clone();
  for k in &g.alphabet {
    if !keys.contains(k) {
      keys.push(*k);
    }
  }
  let mut map: HashMap<KeyCode, KeyCode> = HashMap::new();
  let mut used: Vec<KeyCode> = Vec::new();
  // modifiers: a rotation of the eight standard modifiers
  let rot = if src.chance(50) { src.below(8) } else { 0 };
  for (i, m) in STD_MODIFIERS.iter().enumerate() {
    map.insert(*m, STD_MODIFIERS[(i + rot) % 8]);
  }
  for m in STD_MODIFIERS.iter() {
    used.push(*m);
  }
  let nm = nonmod_codes();
  let keep_some = src.chance(40);
  for k in keys.iter().filter(|k| !is_modifier(**k)) {
    if keep_some && src.chance(50) && !used.contains(k) {
      map.insert(*k, *k);
      used.push(*k);
      continue;
    }
    let mut choice: Option<KeyCode> = None;
    for _attempt in 0..6 {
      let cand: Option<KeyCode> = match src.weighted(&[40, 25, 12, 8, 15]) {
        0 => Some(nm[src.below(nm.len())]),
        1 => {
          // same code modulo 256 as a key already in use (modifiers included)
          let base = used[src.below(used.len())];
          let c = code_of(base);
          let partners: Vec<u32> = [c + 256, c + 512, c.wrapping_sub(256), c.wrapping_sub(512)].iter().cloned().filter(|x| *x < 0x300).collect();
          if partners.is_empty() { None } else { key_with_code(partners[src.below(partners.len())]) }
        }
        2 => {
          let hi: Vec<KeyCode> = nm.iter().cloned().filter(|x| code_of(*x) >= 562).collect();
          Some(hi[src.below(hi.len())])
        }
        3 => key_with_code(src.pick(&[63u32, 127, 191, 255, 319, 383, 447, 511, 575, 639])),
        _ => {
          let base = used[src.below(used.len())];
          key_with_code(code_of(base) + 1).or(key_with_code(code_of(base).wrapping_sub(1)))
        }
      };
      if let Some(c) = cand {
        if !is_modifier(c) && !used.contains(&c) {
          choice = Some(c);
          break;
        }
      }
    }
    let c = match choice {
      Some(c) => c,
      None => match nm.iter().find(|x| !used.contains(x)) {
        Some(c) => *c,
        None => *k,
      },
    };
    map.insert(*k, c);
    used.push(c);
  }
  let f = |k: &KeyCode| *map.get(k).unwrap_or(k);
  for m in g.layout.mappings.iter_mut() {
    m.from = m.from.iter().map(f).collect();
    m.to = m.to.iter().map(f).collect();
    m.absorbing = m.absorbing.iter().map(f).collect();
    if let Repeat::Special { keys, .. } = &mut m.repeat {
      *keys = keys.iter().map(f).collect();
    }
  }
  g.alphabet = g.alphabet.iter().map(f).collect();
  g.family = format!("{}+relabelled", g.family);
}

// A crowd: many foreign non-modifier keys that a history presses first and keeps (mostly) held.
// Sizes sit around 16, 32 and 64.
pub fn add_crowd(src: &mut Src, g: &mut GenLayout) -> Vec<KeyCode> {
  let n = src.pick(&[15usize, 16, 17, 18, 31, 32, 33, 34, 40, 63, 64, 65, 66, 70]);
  let used = layout_keys(&g.layout);
  let nm = nonmod_codes();
  let start = src.below(nm.len());
  let mut crowd = Vec::new();
  let mut i = 0;
  while crowd.len() < n && i < nm.len() {
    let k = nm[(start + i * 7) % nm.len()];
    i += 1;
    if !used.contains(k) && !g.alphabet.contains(&k) && !crowd.contains(&k) && !TAGS.contains(&k) {
      crowd.push(k);
    }
  }
  for k in &crowd {
    g.alphabet.push(*k);
  }
  g.family = format!("{}+crowd", g.family);
  crowd
}

// Passes the generated layout through the loader; None = rejected (counted as a discard by
// the caller; with generators that build distinct keys this does not happen).
pub fn loaded(g: GenLayout) -> Option<GenLayout> {
  match through_loader(&g.layout) {
    Ok(l) => Some(GenLayout { layout: l, alphabet: g.alphabet, family: g.family }),
    Err(_) => None,
  }
}

// ---- fixed catalogue -----------------------------------------------------------------------

#[derive(Clone, Debug)]
pub struct CatalogueEntry {
  pub name: String,
  pub layout: Layout,
}

const UNIT_TEST_LAYOUTS: &[(&str, &str)] = &[
  ("test_multi_key_overlap", r#"{"mappings":[{"from":["CAPSLOCK"],"to":[]},{"from":["CAPSLOCK","M"],"to":["LEFTSHIFT","EQUAL"]},{"from":["CAPSLOCK","U"],"to":["EQUAL"]}]}"#),
  ("test_super_multi", r#"{"mappings":[{"from":["CAPSLOCK"],"to":[]},{"from":["TAB"],"to":[]},{"from":["F"],"to":["U"]},{"from":["N"],"to":["B"]},{"from":["CAPSLOCK","M"],"to":["LEFTSHIFT","EQUAL"]},{"from":["CAPSLOCK","F"],"to":["EQUAL"]},{"from":["CAPSLOCK","N"],"to":["LEFTSHIFT","1"]},{"from":["TAB","M"],"to":["PAGEDOWN"]},{"from":["TAB","N"],"to":["LEFTCTRL","LEFT"]}]}"#),
  ("no_repeat_test", r#"{"mappings":[{"from":["A"],"to":["A"],"repeat":"Disabled"},{"from":["B"],"to":["B"]}]}"#),
  ("custom_repeat_test_2", r#"{"mappings":[{"from":["A"],"to":["A"],"repeat":"Disabled"},{"from":["B"],"to":["B"],"repeat":{"Special":{"keys":["LEFTCTRL","C"],"delay_ms":130,"interval_ms":30}}}]}"#),
  ("overlapping_repeat_test_1", r#"{"mappings":[{"from":["A"],"to":["C"]},{"from":["B"],"to":["D"],"repeat":{"Special":{"keys":["E"],"delay_ms":130,"interval_ms":30}}}]}"#),
  ("absorbing_test_1", r#"{"mappings":[{"from":["LEFTSHIFT","A"],"to":["LEFTSHIFT","A"],"absorbing":["LEFTSHIFT"]}]}"#),
  ("absorbing_double_press_test_1", r#"{"mappings":[{"from":["LEFTSHIFT","A"],"to":["LEFTSHIFT","A"],"absorbing":["LEFTSHIFT"]},{"from":["LEFTSHIFT","B"],"to":["LEFTSHIFT","B"],"absorbing":["LEFTSHIFT"]}]}"#),
  ("absorbing_double_press_test_2", r#"{"mappings":[{"from":["Z"],"to":["APOSTROPHE"]},{"from":["RIGHTSHIFT","Z"],"to":["LEFTSHIFT","APOSTROPHE"],"absorbing":["RIGHTSHIFT"]}]}"#),
  ("allowed_overlapping_test_1", r#"{"mappings":[{"from":["A"],"to":["B"]},{"from":["C"],"to":["D"]}]}"#),
  ("disallowed_overlapping_test_1", r#"{"mappings":[{"from":["A"],"to":["LEFTSHIFT","B"]},{"from":["C"],"to":["D"]}]}"#),
  ("shatur_issue_1", r#"{"mappings":[{"from":["LEFTMETA","1"],"to":["LEFTSHIFT","BACKSLASH"]},{"from":["LEFTMETA"],"to":[]}]}"#),
  ("empty", r#"{"mappings":[]}"#),
];

pub fn readme_json_blocks() -> Vec<String> {
  let path = format!("{}/README.md", env!("TM_REPO_DIR"));
  let text = match std::fs::read_to_string(&path) {
    Ok(t) => t,
    Err(_) => return vec![],
  };
  let mut out = Vec::new();
  let mut cur: Option<String> = None;
  for line in text.lines() {
    let t = line.trim_end();
    match &mut cur {
      None => {
        if t.trim_start().starts_with("```json") {
          cur = Some(String::new());
        }
      }
      Some(buf) => {
        if t.trim_start().starts_with("```") {
          out.push(buf.clone());
          cur = None;
        } else {
          buf.push_str(line);
          buf.push('\n');
        }
      }
    }
  }
  out
}

pub fn catalogue() -> Vec<CatalogueEntry> {
  let mut out = Vec::new();
  let mut names: Vec<&String> = crate::default_fancy_layouts::DEFAULT_LAYOUTS.keys().collect();
  names.sort();
  for name in names {
    let text = crate::default_fancy_layouts::DEFAULT_LAYOUTS.get(name).unwrap();
    if let Ok(l) = load_text(text) {
      out.push(CatalogueEntry { name: format!("builtin:{}", name), layout: l });
    }
  }
  for (i, block) in readme_json_blocks().iter().enumerate() {
    let v: Value = match serde_json::from_str(block) {
      Ok(v) => v,
      Err(_) => continue,
    };
    let wrapped = if v.get("mappings").is_some() { v } else { serde_json::json!({ "mappings": [v] }) };
    if let Ok(l) = load_value(&wrapped) {
      out.push(CatalogueEntry { name: format!("readme:{}", i), layout: l });
    }
  }
  for (name, text) in UNIT_TEST_LAYOUTS {
    if let Ok(l) = load_text(text) {
      out.push(CatalogueEntry { name: format!("unit:{}", name), layout: l });
    }
  }
  out
}

// A per-case alphabet for a (possibly large) catalogue layout: trigger modifiers, a few
// final keys, foreign keys.
pub fn catalogue_alphabet(src: &mut Src, l: &Layout, max_mods: usize, n_finals: usize, n_foreign: usize) -> Vec<KeyCode> {
  let mut mods: Vec<KeyCode> = Vec::new();
  let mut finals: Vec<KeyCode> = Vec::new();
  for m in &l.mappings {
    for k in &m.from[..m.from.len() - 1] {
      if !mods.contains(k) {
        mods.push(*k);
      }
    }
  }
  for m in &l.mappings {
    let f = *m.from.last().unwrap();
    if !mods.contains(&f) && !finals.contains(&f) {
      finals.push(f);
    }
  }
  let k = mods.len().min(max_mods);
  let mut alphabet = src.distinct(&mods, k);
  // prefer final keys that combine with the chosen modifiers
  let mut good: Vec<KeyCode> = Vec::new();
  for m in &l.mappings {
    let f = *m.from.last().unwrap();
    if m.from.len() > 1 && m.from[..m.from.len() - 1].iter().all(|x| alphabet.contains(x)) && !good.contains(&f) && !alphabet.contains(&f) {
      good.push(f);
    }
  }
  for _ in 0..n_finals {
    let pool: &Vec<KeyCode> = if !good.is_empty() && src.chance(75) { &good } else { &finals };
    if pool.is_empty() {
      break;
    }
    let f = src.pick(pool);
    if !alphabet.contains(&f) {
      alphabet.push(f);
    }
  }
  let used = layout_keys(l);
  let mut foreign = Vec::new();
  pick_foreign(src, &used, &mut foreign);
  for f in foreign.into_iter().take(n_foreign) {
    alphabet.push(f);
  }
  if alphabet.is_empty() {
    alphabet.push(A);
  }
  alphabet
}
