// Drivers for the mapper properties C01-C05, C07-C09, C19: random histories (proptest),
// breadth-first state sweeps of the real mapper, catalogue layouts, regression replays.

use crate::engine::*;
use crate::evidence::*;
use crate::findings::Findings;
use crate::history::*;
use crate::kb::*;
use crate::key_transforms::Mapper;
use crate::keys::{Event, KeyCode, Layout, Mapping, Repeat};
use crate::layouts::*;
use crate::mon::*;
use crate::tape::Src;
use serde_json::{json, Value};
use std::collections::{HashSet, VecDeque};

pub fn prop_name(n: u32) -> String {
  format!("C{:02}", n)
}

// Runs one history on the real mapper under the monitors selected by `sel`.
// Known findings are counted and the run goes on; the first other violation is returned.
pub fn run_mapper_case(case: &MapperCase, sel: Props, stats: &mut Stats, findings: &Findings) -> Result<Facts, (u32, Violation)> {
  let info = Info::new(&case.layout, &case.alphabet);
  let mut mapper = Mapper::for_layout(&case.layout);
  let mut mon = Mon::new();
  let mut facts = Facts::default();
  let mut pvs: Vec<PV> = Vec::new();
  for (idx, step) in case.steps.iter().enumerate() {
    pvs.clear();
    match step {
      Step::Ev(e) => {
        let r = mapper.step(e.clone());
        mon.on_step(&info, e, &r.events, &r.repeat, sel, &mut facts, &mut pvs);
      }
      Step::ReleaseAll => {
        let evs = mapper.release_all();
        mon.on_release_all(&info, &evs, sel, &mut pvs);
      }
    }
    for pv in pvs.drain(..) {
      let name = prop_name(pv.prop);
      if let Some(k) = findings.is_known(&name, &pv.v) {
        stats.known(&k.signature);
        continue;
      }
      let mut v = pv.v;
      v.detail = format!("at step {} ({}): {}", idx, step_text(step), v.detail);
      return Err((pv.prop, v));
    }
  }
  Ok(facts)
}

pub fn nontrivial_by_rule(id: u32, f: &Facts) -> bool {
  match id {
    1 => f.rest_after_fire >= 1,
    2 => f.step_effect_2held >= 1,
    3 => f.multi_satisfied_press >= 1 || f.chord_while_held >= 1,
    4 => f.tag_with_modifier_down >= 1,
    5 => f.foreign_across >= 1,
    7 => f.norepeat_other_down >= 1,
    8 => f.window_press_inside >= 1,
    9 => f.special_fired >= 1 && f.ignored_events >= 1,
    19 => f.two_in_effect >= 1,
    _ => false,
  }
}

pub fn rule_text(id: u32) -> &'static str {
  match id {
    1 => "case = (layout, physical key history incl. ill-formed events and release_all); non-trivial = the history returns to rest (no physical key held) at least once after a mapping fired; sweep transitions are non-trivial when they reach rest from a state with a non-empty output set; distinct = hash of (layout, history) resp. (layout, state, event)",
    2 => "case = (layout, history); non-trivial = some step ends with a mapping in effect and >=2 physical keys held; distinct = hash of (layout, history) resp. (layout, state, event)",
    3 => "case = (non-absorbing layout with distinguished output keys, history); non-trivial = a press at which >=2 mappings are satisfied, or a chord fired while other keys / mappings are held; distinct = hash of (layout, history) resp. (layout, state, event)",
    4 => "case = (non-absorbing tagged layout, history); non-trivial = a distinguished output key is pressed while some modifier is down on the output; distinct = hash of (layout, history) resp. (layout, state, event)",
    5 => "case = (layout, history with foreign keys); non-trivial = a foreign key or an in-effect mapping is held across a step that fires or removes another mapping; distinct = hash of (layout, history) resp. (layout, state, event)",
    7 => "case = (layout with Disabled/Special mappings, history); non-trivial = another non-modifier key was down on the output when a no-repeat mapping fired; distinct = hash of (layout, history) resp. (layout, state, event)",
    8 => "case = (layout with absorbing mappings, history); non-trivial = an absorb window (M absorbed, still held, not pressed again) with at least one later press of another key inside it; distinct = hash of (layout, history) resp. (layout, state, event)",
    9 => "case = (layout with Special-repeat mappings, history); non-trivial = a Special firing and an ignored event in one history (sweep: a transition that returns Repeating or is an ignored event); distinct = hash of (layout, history) resp. (layout, state, event)",
    19 => "case = (layout, history incl. release_all batches); non-trivial = >=2 mappings in effect at once; distinct = hash of (layout, history) resp. (layout, state, event)",
    _ => "",
  }
}

// ---- breadth-first sweep of the real mapper ------------------------------------------------

#[derive(Clone, Copy, Debug)]
pub struct SweepCfg {
  pub max_held: usize,
  pub cap_states: usize,
  pub with_release_all: bool,
}

pub struct SweepResult {
  pub states: u64,
  pub transitions: u64,
  pub exhausted: bool,
  pub failure: Option<(Vec<Step>, u32, Violation)>,
}

struct Node {
  snap: crate::key_transforms::VerifSnapshot,
  mon: Mon,
  parent: u32,
  via: Option<Step>,
}

fn node_key(fp: &str, mon: &Mon) -> (u64, u64) {
  (hash64(&(fp, mon)), hash64(&(0x9e3779b9u64, mon, fp)))
}

pub fn sweep(layout: &Layout, alphabet: &[KeyCode], sc: &SweepCfg, sel: Props, id: u32, stats: &mut Stats, findings: &Findings) -> SweepResult {
  let info = Info::new(layout, alphabet);
  let mut mapper = Mapper::for_layout(layout);
  let layout_hash = hash64(&layout_text(layout));
  let mut nodes: Vec<Node> = Vec::new();
  let mut seen: HashSet<(u64, u64)> = HashSet::new();
  let mut queue: VecDeque<u32> = VecDeque::new();
  let root_fp = mapper.verif_fingerprint();
  let root_mon = Mon::new();
  seen.insert(node_key(&root_fp, &root_mon));
  stats.fingerprints.insert(hash64(&(layout_hash, &root_fp)));
  nodes.push(Node { snap: mapper.verif_snapshot(), mon: root_mon, parent: u32::MAX, via: None });
  queue.push_back(0);
  let mut transitions: u64 = 0;
  let mut nontrivial_transitions: u64 = 0;
  let mut exhausted = true;
  let mut pvs: Vec<PV> = Vec::new();
  let mut steps_from: Vec<Step> = Vec::new();
  while let Some(ni) = queue.pop_front() {
    steps_from.clear();
    {
      let n = &nodes[ni as usize];
      for k in alphabet {
        if n.mon.phys.contains(*k) || n.mon.phys.len() < sc.max_held {
          steps_from.push(Step::Ev(Event::Pressed(*k)));
        }
        steps_from.push(Step::Ev(Event::Released(*k)));
      }
      if sc.with_release_all {
        steps_from.push(Step::ReleaseAll);
      }
    }
    for st in steps_from.clone() {
      mapper.verif_restore(&nodes[ni as usize].snap);
      let mut mon = nodes[ni as usize].mon.clone();
      let out_before_nonempty = !mon.out.is_empty();
      let mut facts = Facts::default();
      pvs.clear();
      let mut returned_repeating = false;
      match &st {
        Step::Ev(e) => {
          let r = mapper.step(e.clone());
          if let crate::key_transforms::ResultingRepeat::Repeating { .. } = r.repeat {
            returned_repeating = true;
          }
          mon.on_step(&info, e, &r.events, &r.repeat, sel, &mut facts, &mut pvs);
        }
        Step::ReleaseAll => {
          let evs = mapper.release_all();
          mon.on_release_all(&info, &evs, sel, &mut pvs);
        }
      }
      transitions += 1;
      let mut unknown: Option<(u32, Violation)> = None;
      for pv in pvs.drain(..) {
        let name = prop_name(pv.prop);
        if let Some(k) = findings.is_known(&name, &pv.v) {
          stats.known(&k.signature);
        } else if unknown.is_none() {
          unknown = Some((pv.prop, pv.v));
        }
      }
      if let Some((prop, v)) = unknown {
        // shortest history to the violation: path to the node, then this step
        let mut path = vec![st.clone()];
        let mut cur = ni;
        while cur != u32::MAX {
          if let Some(s) = &nodes[cur as usize].via {
            path.push(s.clone());
          }
          cur = nodes[cur as usize].parent;
        }
        path.reverse();
        stats.states += nodes.len() as u64;
        stats.transitions += transitions;
        return SweepResult { states: nodes.len() as u64, transitions, exhausted: false, failure: Some((path, prop, v)) };
      }
      // non-triviality of this transition (rule per property)
      let nt = match id {
        1 => mon.phys.is_empty() && out_before_nonempty,
        9 => returned_repeating || facts.ignored_events >= 1,
        3 => facts.multi_satisfied_press >= 1 || facts.chord_while_held >= 1,
        _ => nontrivial_by_rule(id, &facts),
      };
      let fp = mapper.verif_fingerprint();
      let key = node_key(&fp, &mon);
      if nt {
        nontrivial_transitions += 1;
      }
      if seen.insert(key) {
        if nodes.len() >= sc.cap_states {
          exhausted = false;
          continue;
        }
        stats.fingerprints.insert(hash64(&(layout_hash, &fp)));
        nodes.push(Node { snap: mapper.verif_snapshot(), mon, parent: ni, via: Some(st.clone()) });
        queue.push_back((nodes.len() - 1) as u32);
      }
    }
  }
  stats.states += nodes.len() as u64;
  stats.transitions += transitions;
  // every (state, event) transition of one sweep is distinct by construction; the same slice
  // swept twice (same layout, alphabet, bound) is counted once
  if nontrivial_transitions > 0 {
    stats.nontrivial_slices.insert(hash64(&("sweep-slice", layout_hash, alphabet, sc.max_held)), nontrivial_transitions);
  }
  if exhausted {
    stats.exhaustive_slices += 1;
  } else {
    stats.capped_slices += 1;
  }
  SweepResult { states: nodes.len() as u64, transitions, exhausted, failure: None }
}

// ---- structural minimisation of a failing mapper case --------------------------------------

pub fn minimise_case(case: &MapperCase, fails: &dyn Fn(&MapperCase) -> bool) -> MapperCase {
  let mut best = case.clone();
  let mut changed = true;
  let mut rounds = 0;
  // (a budget: minimisation only starts after a failure has been found, it never decides one)
  let dl = Deadline::after_secs(90);
  // chunked removal first (halves, quarters, ... single elements): long histories and layouts of
  // tens of thousands of mappings would never get through one-at-a-time removal
  fn chunked(len: usize, dl: &Deadline, mut try_remove: impl FnMut(usize, usize) -> Option<usize>) {
    let mut len = len;
    let mut chunk = (len / 2).max(1);
    loop {
      let mut end = len;
      while end > 0 && !dl.passed() {
        let start = end.saturating_sub(chunk);
        match try_remove(start, end) {
          Some(new_len) => {
            len = new_len;
            end = start.min(len);
          }
          None => end = start,
        }
      }
      if chunk == 1 || dl.passed() {
        break;
      }
      chunk = (chunk / 2).max(1);
    }
  }
  while changed && rounds < 50 && !dl.passed() {
    changed = false;
    rounds += 1;
    // drop steps
    {
      let n = best.steps.len();
      let best_cell = std::cell::RefCell::new(best.clone());
      let ch = std::cell::Cell::new(false);
      chunked(n, &dl, |a, b| {
        let mut c = best_cell.borrow().clone();
        if b > c.steps.len() || a >= b {
          return None;
        }
        c.steps.drain(a..b);
        if fails(&c) {
          let l = c.steps.len();
          *best_cell.borrow_mut() = c;
          ch.set(true);
          Some(l)
        } else {
          None
        }
      });
      best = best_cell.into_inner();
      changed |= ch.get();
    }
    // drop mappings
    {
      let n = best.layout.mappings.len();
      let best_cell = std::cell::RefCell::new(best.clone());
      let ch = std::cell::Cell::new(false);
      chunked(n, &dl, |a, b| {
        let mut c = best_cell.borrow().clone();
        if b > c.layout.mappings.len() || a >= b {
          return None;
        }
        c.layout.mappings.drain(a..b);
        if fails(&c) {
          let l = c.layout.mappings.len();
          *best_cell.borrow_mut() = c;
          ch.set(true);
          Some(l)
        } else {
          None
        }
      });
      best = best_cell.into_inner();
      changed |= ch.get();
    }
    // simplify mappings
    for mi in 0..best.layout.mappings.len() {
      if dl.passed() {
        break;
      }
      // repeat -> Normal
      if !matches!(best.layout.mappings[mi].repeat, Repeat::Normal) {
        let mut c = best.clone();
        c.layout.mappings[mi].repeat = Repeat::Normal;
        if fails(&c) {
          best = c;
          changed = true;
        }
      }
      if let Repeat::Special { keys, delay_ms, interval_ms } = best.layout.mappings[mi].repeat.clone() {
        if !keys.is_empty() {
          let mut c = best.clone();
          c.layout.mappings[mi].repeat = Repeat::Special { keys: vec![], delay_ms, interval_ms };
          if fails(&c) {
            best = c;
            changed = true;
          }
        }
      }
      // drop absorbing entries
      let mut j = best.layout.mappings[mi].absorbing.len();
      while j > 0 {
        j -= 1;
        let mut c = best.clone();
        c.layout.mappings[mi].absorbing.remove(j);
        if fails(&c) {
          best = c;
          changed = true;
        }
      }
      // drop output keys
      let mut j = best.layout.mappings[mi].to.len();
      while j > 0 {
        j -= 1;
        let mut c = best.clone();
        c.layout.mappings[mi].to.remove(j);
        if fails(&c) {
          best = c;
          changed = true;
        }
      }
      // drop trigger modifiers (never the final key; keep absorbing a subset)
      let mut j = best.layout.mappings[mi].from.len().saturating_sub(1);
      while j > 0 {
        j -= 1;
        let mut c = best.clone();
        let removed = c.layout.mappings[mi].from.remove(j);
        c.layout.mappings[mi].absorbing.retain(|a| *a != removed);
        if fails(&c) {
          best = c;
          changed = true;
        }
      }
    }
    // drop alphabet keys that the history does not use
    let used: Vec<KeyCode> = best.steps.iter().filter_map(|s| match s { Step::Ev(e) => Some(ev_key(e)), _ => None }).collect();
    let before = best.alphabet.len();
    let mut c = best.clone();
    c.alphabet.retain(|k| used.contains(k));
    if c.alphabet.len() < before && fails(&c) {
      best = c;
      changed = true;
    }
  }
  best
}

// ---- orchestration -------------------------------------------------------------------------

#[derive(Clone, Debug)]
struct SweepCase {
  g: GenLayout,
  max_held: usize,
}

pub struct Plan {
  families: Vec<(Family, bool /*allow absorbing*/, u32 /*weight*/)>,
  sweep_families: Vec<(Family, bool)>,
  catalogue_filter_nonabs: bool,
  needs_absorbing: bool,
  needs_norepeat: bool,
}

pub fn plan_for(id: u32) -> Plan {
  use Family::*;
  match id {
    1 | 2 | 19 => Plan {
      families: vec![(General, true, 26), (Tagged, true, 14), (AbsorbingDense, true, 19), (RepeatDense, true, 14), (ModDense, false, 12), (Siblings, true, 15)],
      sweep_families: vec![(General, true), (Tagged, true), (AbsorbingDense, true), (RepeatDense, true), (ModDense, false), (Siblings, true), (Siblings, true)],
      catalogue_filter_nonabs: false,
      needs_absorbing: false,
      needs_norepeat: false,
    },
    3 | 4 => Plan {
      families: vec![(Tagged, false, 38), (General, false, 13), (RepeatDense, false, 13), (ModDense, false, 21), (Siblings, false, 15)],
      sweep_families: vec![(Tagged, false), (RepeatDense, false), (General, false), (ModDense, false), (ModDense, false), (Siblings, false), (Siblings, false)],
      catalogue_filter_nonabs: true,
      needs_absorbing: false,
      needs_norepeat: false,
    },
    5 => Plan {
      families: vec![(General, true, 22), (Tagged, false, 21), (RepeatDense, false, 14), (AbsorbingDense, true, 14), (ModDense, false, 14), (Siblings, true, 15)],
      sweep_families: vec![(General, false), (Tagged, false), (RepeatDense, true), (General, true), (ModDense, false), (Siblings, true), (Siblings, false)],
      catalogue_filter_nonabs: false,
      needs_absorbing: false,
      needs_norepeat: false,
    },
    7 => Plan {
      families: vec![(RepeatDense, false, 34), (RepeatDense, true, 17), (General, true, 34), (Siblings, true, 15)],
      sweep_families: vec![(RepeatDense, false), (RepeatDense, true), (General, true), (Siblings, true)],
      catalogue_filter_nonabs: false,
      needs_absorbing: false,
      needs_norepeat: true,
    },
    8 => Plan {
      families: vec![(AbsorbingDense, true, 45), (General, true, 15), (Tagged, true, 15), (Siblings, true, 25)],
      sweep_families: vec![(AbsorbingDense, true), (AbsorbingDense, true), (Tagged, true), (Siblings, true), (Siblings, true), (Siblings, true)],
      catalogue_filter_nonabs: false,
      needs_absorbing: true,
      needs_norepeat: false,
    },
    9 => Plan {
      families: vec![(RepeatDense, false, 45), (RepeatDense, true, 20), (General, true, 15), (Siblings, true, 20)],
      sweep_families: vec![(RepeatDense, false), (RepeatDense, true), (Siblings, true), (Siblings, true)],
      catalogue_filter_nonabs: false,
      needs_absorbing: false,
      needs_norepeat: true,
    },
    _ => panic!("not a mapper property"),
  }
}

pub fn gen_random_case(src: &mut Src, plan: &Plan, hist: &HistOpts) -> Option<MapperCase> {
  let ws: Vec<u32> = plan.families.iter().map(|f| f.2).collect();
  let fi = src.weighted(&ws);
  let (fam, allow_abs, _) = plan.families[fi];
  let opts = LayoutOpts { allow_absorbing: allow_abs, max_alphabet: 8 };
  // scale diversity: now and then a wide layout and / or a crowd of held keys
  let fam = if hist.marathon_taps > 0 && src.chance(15) { Family::Huge } else if src.chance(if hist.marathon_taps > 0 { 60 } else { 4 }) { Family::Wide } else { fam };
  let mut g = loaded(gen_family(src, fam, &opts))?;
  let crowd = if hist.marathon_taps == 0 && src.chance(4) { add_crowd(src, &mut g) } else { vec![] };
  let steps = gen_history_mixed(src, &g.layout, &g.alphabet, hist, &crowd);
  Some(MapperCase { layout: g.layout, alphabet: g.alphabet, steps, family: g.family })
}

// *rollover* cases: a short typing prefix, then one tap pattern repeated a boundary-biased number
// of times (around 2^8 and 2^16: counters, generation stamps and bounded histories in the code
// under test wrap or overflow there), then a short typing suffix. All keys are released between
// the three parts.
pub fn gen_rollover_case(src: &mut Src, plan: &Plan) -> Option<MapperCase> {
  let ws: Vec<u32> = plan.families.iter().map(|f| f.2).collect();
  let (fam, allow_abs, _) = plan.families[src.weighted(&ws)];
  let opts = LayoutOpts { allow_absorbing: allow_abs, max_alphabet: 6 };
  let g = loaded(gen_family(src, fam, &opts))?;
  fn release_held(steps: &mut Vec<Step>) {
    let mut held: Vec<KeyCode> = Vec::new();
    for s in steps.iter() {
      match s {
        Step::Ev(Event::Pressed(k)) => {
          if !held.contains(k) {
            held.push(*k);
          }
        }
        Step::Ev(Event::Released(k)) => held.retain(|x| x != k),
        Step::ReleaseAll => held.clear(),
      }
    }
    for k in held.into_iter().rev() {
      steps.push(Step::Ev(Event::Released(k)));
    }
  }
  let mut steps = gen_typing(src, &g.layout, &g.alphabet, 10, &[]);
  release_held(&mut steps);
  let mut unit: Vec<Step> = Vec::new();
  let n_taps = if src.chance(30) { 2 } else { 1 };
  for _ in 0..n_taps {
    if g.layout.mappings.is_empty() || src.chance(20) {
      if g.alphabet.is_empty() {
        continue;
      }
      let k = src.pick(&g.alphabet);
      unit.push(Step::Ev(Event::Pressed(k)));
      unit.push(Step::Ev(Event::Released(k)));
    } else {
      let m = src.pick(&g.layout.mappings);
      for t in &m.from {
        unit.push(Step::Ev(Event::Pressed(*t)));
      }
      for t in m.from.iter().rev() {
        unit.push(Step::Ev(Event::Released(*t)));
      }
    }
  }
  let base: usize = if src.chance(15) { 256 } else { 65_536 };
  let k = base - 6 + src.below(9);
  if !unit.is_empty() {
    for _ in 0..k {
      steps.extend(unit.iter().cloned());
    }
  }
  let mut suffix = gen_typing(src, &g.layout, &g.alphabet, 10, &[]);
  release_held(&mut suffix);
  steps.extend(suffix);
  Some(MapperCase { layout: g.layout, alphabet: g.alphabet, steps, family: format!("{}+rollover", g.family) })
}

pub fn case_relevant(plan: &Plan, l: &Layout) -> bool {
  (!plan.needs_absorbing || has_absorbing(l)) && (!plan.needs_norepeat || l.mappings.iter().any(is_norepeat)) && (!plan.catalogue_filter_nonabs || !has_absorbing(l))
}

fn record_case(id: u32, case: &MapperCase, facts: &Facts, stats: &mut Stats) {
  stats.label(&format!("family:{}", case.family));
  let n = case.steps.len();
  stats.label(if n == 0 { "events:0" } else if n <= 10 { "events:1-10" } else if n <= 40 { "events:11-40" } else { "events:41+" });
  if facts.fired > 0 {
    stats.label("a-mapping-fired");
  }
  if facts.two_in_effect > 0 {
    stats.label("two-mappings-in-effect");
  }
  if facts.windows_opened > 0 {
    stats.label("absorb-window-opened");
  }
  if facts.window_press_inside > 0 {
    stats.label("press-inside-absorb-window");
  }
  if facts.special_fired > 0 {
    stats.label("special-repeat-fired");
  }
  if facts.ignored_events > 0 {
    stats.label("ignored-event");
  }
  if facts.multi_satisfied_press > 0 {
    stats.label("press-with-2+-mappings-satisfied");
  }
  if facts.norepeat_other_down > 0 {
    stats.label("norepeat-fired-with-other-key-down");
  }
  if case.steps.iter().any(|s| *s == Step::ReleaseAll) {
    stats.label("has-release-all");
  }
  let nt = nontrivial_by_rule(id, facts);
  if nt {
    stats.label("non-trivial");
    stats.nontrivial_case(case.canonical_hash());
    if stats.want_nontrivial_sample() && n <= 30 {
      stats.nontrivial_samples.push(case.to_json());
    }
  } else if stats.want_sample() && n <= 20 {
    stats.samples.push(case.to_json());
  }
}

fn report_failure(id: u32, rep: &mut Report, case: MapperCase, v: Violation, findings: &Findings) {
  let name = prop_name(id);
  let sel = p(id);
  let kind = v.kind.clone();
  let fails = |c: &MapperCase| -> bool {
    let mut scratch = Stats::new();
    match run_guarded(|| run_mapper_case(c, sel, &mut scratch, findings).map(|_| ()).map_err(|(_, v)| v)) {
      Err(v2) => v2.kind == kind,
      Ok(()) => false,
    }
  };
  let min = if fails(&case) { minimise_case(&case, &fails) } else { case };
  let mut scratch = Stats::new();
  let v_final = match run_guarded(|| run_mapper_case(&min, sel, &mut scratch, findings).map(|_| ()).map_err(|(_, v)| v)) {
    Err(v2) => v2,
    Ok(()) => v,
  };
  let path = write_replay(&name, &v_final, &min.to_json());
  rep.violations.push((v_final, path));
}

pub fn check(id: u32, cfg: &RunCfg, findings: &Findings) -> Report {
  let name = prop_name(id);
  let mut rep = Report::new(&name, "exploration", rule_text(id));
  let plan = plan_for(id);
  let sel = p(id);
  let quick = cfg.tier == Tier::Quick;

  // 1. committed regression replays
  let reg_dir = format!("{}/regressions/{}", crate::findings::verif_dir(), name);
  // (VERIF_NO_REGRESSIONS is a development switch used when measuring what the search itself finds)
  if std::env::var("VERIF_NO_REGRESSIONS").is_err() {
   if let Ok(rd) = std::fs::read_dir(&reg_dir) {
    let mut files: Vec<_> = rd.filter_map(|e| e.ok()).map(|e| e.path()).filter(|p| p.extension().map(|x| x == "json").unwrap_or(false)).collect();
    files.sort();
    for f in files {
      let text = std::fs::read_to_string(&f).unwrap_or_default();
      let v: Value = match serde_json::from_str(&text) {
        Ok(v) => v,
        Err(_) => continue,
      };
      let case = match MapperCase::from_json(v.get("case").unwrap_or(&v)) {
        Ok(c) => c,
        Err(_) => continue,
      };
      rep.stats.evaluations += 1;
      rep.stats.count("regression-replays", 1);
      let mut st = Stats::new();
      match run_guarded(|| run_mapper_case(&case, sel, &mut st, findings).map(|_| ()).map_err(|(_, v)| v)) {
        Ok(()) => {}
        Err(v) => {
          rep.violations.push((v, f.to_string_lossy().to_string()));
        }
      }
      rep.stats.merge(st);
    }
    if !rep.violations.is_empty() {
      return rep;
    }
   }
  }

  // 2. state sweeps of generated small layouts (proptest generates and shrinks the layout)
  let sweep_cases: u32 = if quick { 288 } else { 1_500 };
  let sc = SweepCfg { max_held: if quick { 4 } else { 4 }, cap_states: if quick { 60_000 } else { 300_000 }, with_release_all: matches!(id, 1 | 2 | 19) };
  let sweep_alpha = if quick { 6 } else { 7 };
  {
    let plan_ref = &plan;
    let (st, fail) = run_prop_iters(
      cfg,
      &format!("{}-sweep", name),
      16,
      sweep_cases,
      48,
      260,
      200,
      |src: &mut Src| {
        let (fam, allow_abs) = plan_ref.sweep_families[src.below(plan_ref.sweep_families.len())];
        let opts = LayoutOpts { allow_absorbing: allow_abs, max_alphabet: sweep_alpha };
        // siblings: now and then all five keys of the pool may be held at once
        let five = fam == Family::Siblings && src.chance(40);
        let opts = if five { LayoutOpts { max_alphabet: 5, ..opts } } else { opts };
        loaded(gen_family(src, fam, &opts)).map(|g| SweepCase { g, max_held: if five { 5 } else { sc.max_held } })
      },
      |c: &Option<SweepCase>, stats: &mut Stats| {
        let c = match c {
          Some(c) => c,
          None => {
            stats.discards += 1;
            return Ok(());
          }
        };
        if !case_relevant(plan_ref, &c.g.layout) {
          stats.discards += 1;
          return Ok(());
        }
        stats.label(&format!("sweep-family:{}", c.g.family));
        let sc = SweepCfg { max_held: c.max_held, ..sc.clone() };
        if c.max_held > 4 {
          stats.label("sweep-with-5-keys-held");
        }
        let r = sweep(&c.g.layout, &c.g.alphabet, &sc, sel, id, stats, findings);
        if stats.want_sample() {
          stats.samples.push(json!({"sweep_of": layout_text(&c.g.layout), "alphabet": c.g.alphabet.iter().map(|k| key_name(*k)).collect::<Vec<_>>(), "max_held": sc.max_held, "states": r.states, "transitions": r.transitions, "exhausted": r.exhausted}));
        }
        match r.failure {
          None => Ok(()),
          Some((_path, _prop, v)) => Err(v),
        }
      },
    );
    rep.stats.merge(st);
    if let Some(f) = fail {
      if let Some(c) = f.case {
        let mut scratch = Stats::new();
        let r = sweep(&c.g.layout, &c.g.alphabet, &sc, sel, id, &mut scratch, findings);
        if let Some((path, _prop, v)) = r.failure {
          let case = MapperCase { layout: c.g.layout.clone(), alphabet: c.g.alphabet.clone(), steps: path, family: format!("sweep:{}", c.g.family) };
          report_failure(id, &mut rep, case, v, findings);
          return rep;
        }
      }
      // could not reproduce: report what the engine saw
      let path = write_replay(&name, &f.violation, &json!({"note": "sweep failure that did not reproduce on re-run"}));
      rep.violations.push((f.violation, path));
      return rep;
    }
  }

  // 3. catalogue layouts: sweeps under sampled alphabets + random histories
  let cat: Vec<CatalogueEntry> = catalogue().into_iter().filter(|e| case_relevant(&plan, &e.layout)).collect();
  if !cat.is_empty() {
    let cat_ref = &cat;
    let per_shard: u32 = if quick { 4 } else { 40 };
    let (st, fail) = run_prop_iters(
      cfg,
      &format!("{}-catalogue-sweep", name),
      16,
      per_shard,
      16,
      48,
      60,
      |src: &mut Src| {
        let e = &cat_ref[src.below(cat_ref.len())];
        let alphabet = catalogue_alphabet(src, &e.layout, 3, 3, 1);
        SweepCase { g: GenLayout { layout: e.layout.clone(), alphabet, family: e.name.clone() }, max_held: sc.max_held }
      },
      |c: &SweepCase, stats: &mut Stats| {
        stats.label(&format!("catalogue-sweep:{}", c.g.family));
        let r = sweep(&c.g.layout, &c.g.alphabet, &sc, sel, id, stats, findings);
        if stats.want_sample() {
          stats.samples.push(json!({"sweep_of": c.g.family, "alphabet": c.g.alphabet.iter().map(|k| key_name(*k)).collect::<Vec<_>>(), "max_held": sc.max_held, "states": r.states, "transitions": r.transitions, "exhausted": r.exhausted}));
        }
        match r.failure {
          None => Ok(()),
          Some((_p, _pr, v)) => Err(v),
        }
      },
    );
    rep.stats.merge(st);
    if let Some(f) = fail {
      let c = f.case;
      let mut scratch = Stats::new();
      let r = sweep(&c.g.layout, &c.g.alphabet, &sc, sel, id, &mut scratch, findings);
      if let Some((path, _prop, v)) = r.failure {
        let case = MapperCase { layout: c.g.layout.clone(), alphabet: c.g.alphabet.clone(), steps: path, family: format!("sweep:{}", c.g.family) };
        report_failure(id, &mut rep, case, v, findings);
        return rep;
      }
    }
    let hist = HistOpts { max_events: if quick { 40 } else { 150 }, max_held: 5, raw_percent: 6, release_all_percent: 2, marathon_taps: 0 };
    let per_shard: u32 = if quick { 1_500 } else { 30_000 };
    let (st, fail) = run_prop(
      cfg,
      &format!("{}-catalogue-random", name),
      16,
      per_shard,
      48,
      if quick { 160 } else { 420 },
      |src: &mut Src| {
        let e = &cat_ref[src.below(cat_ref.len())];
        let alphabet = catalogue_alphabet(src, &e.layout, 6, 4, 2);
        let steps = gen_history_mixed(src, &e.layout, &alphabet, &hist, &[]);
        MapperCase { layout: e.layout.clone(), alphabet, steps, family: e.name.clone() }
      },
      |c: &MapperCase, stats: &mut Stats| match run_mapper_case(c, sel, stats, findings) {
        Ok(facts) => {
          record_case(id, c, &facts, stats);
          Ok(())
        }
        Err((_p, v)) => Err(v),
      },
    );
    rep.stats.merge(st);
    if let Some(f) = fail {
      report_failure(id, &mut rep, f.case, f.violation, findings);
      return rep;
    }
  }

  // 4. random layouts x random histories
  let hist = HistOpts { max_events: if quick { 40 } else { 150 }, max_held: 5, raw_percent: 6, release_all_percent: if matches!(id, 1 | 2 | 19) { 3 } else { 1 }, marathon_taps: 0 };
  let per_shard: u32 = if quick { 20_000 } else { 200_000 };
  let plan_ref = &plan;
  let (st, fail) = run_prop(
    cfg,
    &format!("{}-random", name),
    16,
    per_shard,
    64,
    if quick { 1000 } else { 1200 },
    |src: &mut Src| gen_random_case(src, plan_ref, &hist),
    |c: &Option<MapperCase>, stats: &mut Stats| {
      let c = match c {
        Some(c) => c,
        None => {
          stats.discards += 1;
          return Ok(());
        }
      };
      if !case_relevant(plan_ref, &c.layout) {
        stats.discards += 1;
        return Ok(());
      }
      match run_mapper_case(c, sel, stats, findings) {
        Ok(facts) => {
          record_case(id, c, &facts, stats);
          Ok(())
        }
        Err((_p, v)) => Err(v),
      }
    },
  );
  rep.stats.merge(st);
  if let Some(f) = fail {
    if let Some(c) = f.case {
      report_failure(id, &mut rep, c, f.violation, findings);
    }
    return rep;
  }
  // 5. marathons: few, very long typing runs (mostly on wide layouts) - memory effects such as
  // bounded lists, caches and counters only show after hundreds of chord taps
  let mhist = HistOpts { max_events: 0, max_held: 5, raw_percent: 0, release_all_percent: 0, marathon_taps: 400 };
  let (st, fail) = run_prop(
    cfg,
    &format!("{}-marathon", name),
    16,
    if quick { 200 } else { 2_500 },
    4_000,
    9_000,
    |src: &mut Src| gen_random_case(src, plan_ref, &mhist),
    |c: &Option<MapperCase>, stats: &mut Stats| {
      let c = match c {
        Some(c) => c,
        None => {
          stats.discards += 1;
          return Ok(());
        }
      };
      if !case_relevant(plan_ref, &c.layout) {
        stats.discards += 1;
        return Ok(());
      }
      stats.label("marathon");
      stats.label(&format!("marathon-family:{}", c.family));
      if c.layout.mappings.len() > 60_000 {
        stats.label("marathon-giant-layout");
      }
      stats.count("marathon-events", c.steps.len() as u64);
      match run_mapper_case(c, sel, stats, findings) {
        Ok(facts) => {
          if nontrivial_by_rule(id, &facts) {
            stats.nontrivial_case(c.canonical_hash());
          }
          Ok(())
        }
        Err((_p, v)) => Err(v),
      }
    },
  );
  rep.stats.merge(st);
  if let Some(f) = fail {
    if let Some(c) = f.case {
      report_failure(id, &mut rep, c, f.violation, findings);
    }
    return rep;
  }
  // 6. rollovers: one tap pattern repeated about 2^8 / 2^16 times between two short typing runs
  let (st, fail) = run_prop(
    cfg,
    &format!("{}-rollover", name),
    16,
    if quick { 60 } else { 1_500 },
    100,
    400,
    |src: &mut Src| gen_rollover_case(src, plan_ref),
    |c: &Option<MapperCase>, stats: &mut Stats| {
      let c = match c {
        Some(c) => c,
        None => {
          stats.discards += 1;
          return Ok(());
        }
      };
      if !case_relevant(plan_ref, &c.layout) {
        stats.discards += 1;
        return Ok(());
      }
      stats.label("rollover");
      if c.steps.len() > 100_000 {
        stats.label("rollover-2^16");
      }
      stats.count("rollover-events", c.steps.len() as u64);
      match run_mapper_case(c, sel, stats, findings) {
        Ok(facts) => {
          if nontrivial_by_rule(id, &facts) {
            stats.nontrivial_case(c.canonical_hash());
          }
          Ok(())
        }
        Err((_p, v)) => Err(v),
      }
    },
  );
  rep.stats.merge(st);
  if let Some(f) = fail {
    if let Some(c) = f.case {
      report_failure(id, &mut rep, c, f.violation, findings);
    }
    return rep;
  }
  crate::fuzzstage::stage(&mut rep, cfg, "fz_mapper", id, 1_600_000, 700);
  rep.exhaustive = false;
  rep.assumptions = vec![
    "the physical key set is kept by the harness (press adds, release removes); release_all is followed by an all-released physical keyboard in these runs (unseen activity after release_all is covered by C06/C12)".to_string(),
    "each swept layout is decided for every history of any length with at most max_held keys held over its alphabet (ill-formed events included) when the sweep is reported as exhausted; across layouts the search is a sample".to_string(),
    "'modifier' means the eight standard modifier keys".to_string(),
  ];
  rep
}

// Prints what the real mapper answers at every step of a replay file's case (triage aid).
pub fn trace(file: &str) -> Result<(), Violation> {
  let text = std::fs::read_to_string(file).map_err(|e| Violation::new("io", format!("cannot read {}: {}", file, e)))?;
  let v: Value = serde_json::from_str(&text).map_err(|e| Violation::new("io", e.to_string()))?;
  let case = MapperCase::from_json(v.get("case").unwrap_or(&v)).map_err(|e| Violation::new("io", e))?;
  println!("layout: {}", layout_text(&case.layout));
  let mut mapper = Mapper::for_layout(&case.layout);
  for (i, step) in case.steps.iter().enumerate() {
    match step {
      Step::Ev(e) => {
        let r = mapper.step(e.clone());
        println!("{:4} {:<14} -> [{}] repeat {:?}   state {}", i, step_text(step), evs_text(&r.events), r.repeat, mapper.verif_fingerprint());
      }
      Step::ReleaseAll => {
        let evs = mapper.release_all();
        println!("{:4} release_all    -> [{}]", i, evs_text(&evs));
      }
    }
  }
  Ok(())
}

pub fn replay(id: u32, file: &str, findings: &Findings) -> Result<(), Violation> {
  let text = std::fs::read_to_string(file).map_err(|e| Violation::new("io", format!("cannot read {}: {}", file, e)))?;
  let v: Value = serde_json::from_str(&text).map_err(|e| Violation::new("io", e.to_string()))?;
  let case = MapperCase::from_json(v.get("case").unwrap_or(&v)).map_err(|e| Violation::new("io", e))?;
  let mut st = Stats::new();
  run_guarded(|| run_mapper_case(&case, p(id), &mut st, findings).map(|_| ()).map_err(|(_, v)| v))
}
