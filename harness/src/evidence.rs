// Evidence files (/verif/evidence/<id>.json) and replay files (/verif/replays/<id>/...).
use crate::engine::{RunCfg, Stats, Violation};
use crate::findings::{verif_out_dir as verif_dir, Findings};
use serde_json::{json, Map, Value};

pub struct Report {
  pub id: String,
  pub level: &'static str,
  pub rule: String,
  pub stats: Stats,
  pub exhaustive: bool,
  pub assumptions: Vec<String>,
  pub extra: Map<String, Value>,
  pub violations: Vec<(Violation, String)>, // (violation, replay path)
}

impl Report {
  pub fn new(id: &str, level: &'static str, rule: &str) -> Report {
    Report { id: id.to_string(), level, rule: rule.to_string(), stats: Stats::new(), exhaustive: false, assumptions: vec![], extra: Map::new(), violations: vec![] }
  }
}

pub fn write_replay(id: &str, v: &Violation, case: &Value) -> String {
  let dir = format!("{}/replays/{}", verif_dir(), id);
  let _ = std::fs::create_dir_all(&dir);
  let body = json!({
    "property": id,
    "kind": v.kind,
    "signature": v.sig,
    "detail": v.detail,
    "case": case,
  });
  let text = serde_json::to_string_pretty(&body).unwrap();
  let h = crate::engine::hash64(&text);
  let path = format!("{}/{}-{:016x}.json", dir, v.kind, h);
  let _ = std::fs::write(&path, text);
  path
}

pub fn write_evidence(cfg: &RunCfg, rep: &Report, findings: &Findings, wall_s: f64) {
  let st = &rep.stats;
  // samples: non-trivial ones first; very large cases (crowds, wide layouts, long bursts) are
  // left out of the file as long as smaller ones exist, otherwise shown as a text prefix
  let mut samples: Vec<Value> = Vec::new();
  let small = |v: &Value| v.to_string().len() <= 4000;
  for s in st.nontrivial_samples.iter().filter(|v| small(v)).take(4) {
    samples.push(s.clone());
  }
  for s in st.samples.iter().filter(|v| small(v)).take(3) {
    samples.push(s.clone());
  }
  if samples.is_empty() {
    if let Some(v) = st.nontrivial_samples.iter().chain(st.samples.iter()).min_by_key(|v| v.to_string().len()) {
      let t = v.to_string();
      samples.push(json!({"truncated_case": t.chars().take(3000).collect::<String>(), "full_length": t.len()}));
    }
  }
  let mut coverage = Map::new();
  coverage.insert("evaluations".into(), json!(st.evaluations));
  coverage.insert("distinct_nontrivial".into(), json!(st.distinct_nontrivial()));
  coverage.insert("rule".into(), json!(rep.rule));
  coverage.insert("samples".into(), Value::Array(samples));
  if st.states > 0 {
    coverage.insert("states".into(), json!(st.states));
    coverage.insert("transitions".into(), json!(st.transitions));
    coverage.insert("distinct_mapper_states".into(), json!(st.fingerprints.len() as u64));
    coverage.insert("sweeps_exhausted".into(), json!(st.exhaustive_slices));
    coverage.insert("sweeps_capped".into(), json!(st.capped_slices));
  }
  coverage.insert("exhaustive".into(), json!(rep.exhaustive));
  coverage.insert("labels".into(), json!(st.labels));
  coverage.insert("counters".into(), json!(st.counters));
  coverage.insert("discards".into(), json!(st.discards));
  coverage.insert("known_finding_hits".into(), json!(st.known_hits));
  for (k, v) in &rep.extra {
    coverage.insert(k.clone(), v.clone());
  }
  let body = json!({
    "property_id": rep.id,
    "tier": cfg.tier.name(),
    "seed": cfg.seed,
    "level": rep.level,
    "coverage": Value::Object(coverage),
    "assumptions": rep.assumptions,
    "wall_s": wall_s,
    "violations": rep.violations.len() as i64,
    "violation_list": rep.violations.iter().map(|(v, p)| json!({"kind": v.kind, "detail": v.detail, "replay": p})).collect::<Vec<_>>(),
    "known_findings_listed": findings.for_property(&rep.id).iter().map(|k| json!({"signature": k.signature, "what": k.what})).collect::<Vec<_>>(),
  });
  let dir = format!("{}/evidence", verif_dir());
  let _ = std::fs::create_dir_all(&dir);
  let path = format!("{}/{}.json", dir, rep.id);
  std::fs::write(&path, serde_json::to_string_pretty(&body).unwrap()).expect("write evidence");
}

// Prints the verdict lines and returns the process exit code.
pub fn finish(cfg: &RunCfg, rep: &Report, findings: &Findings, wall_s: f64) -> i32 {
  write_evidence(cfg, rep, findings, wall_s);
  for k in findings.for_property(&rep.id) {
    let hits = rep.stats.known_hits.get(&k.signature).cloned().unwrap_or(0);
    println!("KNOWN-FINDING: property={} {} [signature={} hits_this_run={}]", rep.id, k.what, k.signature, hits);
  }
  println!(
    "[{}] tier={} seed={} evaluations={} distinct_nontrivial={} states={} discards={} wall={:.1}s",
    rep.id, cfg.tier.name(), cfg.seed, rep.stats.evaluations, rep.stats.distinct_nontrivial(), rep.stats.states, rep.stats.discards, wall_s
  );
  if rep.violations.is_empty() {
    println!("[{}] OK: property held on everything explored", rep.id);
    0
  } else {
    for (v, path) in &rep.violations {
      println!("[{}] {}: {}", rep.id, v.kind, v.detail);
      println!("VIOLATION property={} replay={}", rep.id, path);
    }
    1
  }
}
