#![allow(dead_code, unused_imports, unused_variables, unused_mut)]
#[macro_use]
extern crate enum_display_derive;

// the repository's own modules, compiled from /repo/src (see build.rs)
include!(concat!(env!("OUT_DIR"), "/mods.rs"));

pub mod tape;
pub mod engine;
pub mod kb;
pub mod layouts;
pub mod history;
pub mod mon;
pub mod findings;
pub mod evidence;
pub mod props_mapper;
pub mod props_c06;
pub mod loopsim;
pub mod props_loop;
pub mod props_real;
pub mod props_c13;
pub mod props_c14;
pub mod props_c15;
pub mod props_c17;
pub mod props_c18;
pub mod props_c16;
pub mod fuzz_api;
pub mod fuzzstage;
