// Real-descriptor stage of the loop properties C10, C12 and C20: the per-device loop runs on
// the repository's *real* driver (mio/epoll edge-triggered poll, DevInputReader,
// TabletModeSwitchReader, DevInputWriter - hook H6) over descriptors the harness owns:
// unix stream socket pairs for the keyboard and the tablet switch, a pipe for the virtual
// keyboard. The scripted driver of loopsim.rs models the kernel; here the kernel is the kernel.
//
// A case is a list of phases. Every phase is fed only when the loop is *quiescent*: nothing
// unread on its input descriptors and its thread blocked inside epoll_wait (read from
// /proc/self/task/<tid>/syscall). That makes every verdict a function of the case, without a
// wall-clock oracle:
//   - what the sink holds at a quiescent point must be exactly what the twin mapper owes for
//     the events fed so far (C10), resp. release batch / silence / fresh start (C12);
//   - a loop that sits in epoll_wait while bytes it was notified about are unread (stable over
//     hundreds of observations) "went back to waiting with events unread" (C10);
//   - after an injected failure (EPIPE on the sink, ECONNRESET on the keyboard or the tablet
//     switch) the loop must have returned Err by the time its thread would otherwise be
//     quiescent again (C20).
// Special repeats are turned into Disabled ones: timers are C11's business and would make the
// sink's content depend on the clock.

use crate::engine::*;
use crate::evidence::*;
use crate::findings::Findings;
use crate::kb::*;
use crate::key_transforms::Mapper;
use crate::keys::{Event, KeyCode, Layout, Repeat};
use crate::loopsim::Action;
use crate::props_loop::gen_loop_case;
use crate::tape::Src;
use serde_json::{json, Value};
use std::os::unix::io::RawFd;
use std::sync::atomic::{AtomicBool, AtomicI32, Ordering};
use std::sync::{Arc, Mutex};

#[derive(Clone, Debug, PartialEq)]
pub enum Phase {
  // keyboard events, written in the given number of write() calls without waiting in between
  Keys { events: Vec<Event>, writes: usize },
  Tablet(Vec<bool>),
  // keyboard and tablet events that arrive in the same wake-up (no waiting in between); the
  // device that became ready first is written first
  Joint { events: Vec<Event>, writes: usize, tablet: Vec<bool>, tablet_first: bool },
  Interrupt,
}

#[derive(Clone, Copy, Debug, PartialEq)]
pub enum Fault {
  SinkClosed,     // the read end of the sink is closed: the next write fails with EPIPE
  KeyboardReset,  // the keyboard's peer goes away with unread data: read fails with ECONNRESET
  TabletReset,    // the same on the tablet switch
  SinkFull(usize), // the (non-blocking, like /dev/uinput) sink has only this many bytes of room: the next batch fails with EAGAIN
}

#[derive(Clone, Debug)]
pub struct RealCase {
  pub layout: Layout,
  pub phases: Vec<Phase>,
  pub with_tablet_fd: bool,
  pub evdev_framing: bool, // MSC_SCAN before and SYN_REPORT after every key event, auto-repeat records for held keys
  pub tablet_noise: bool,  // the switch device also reports other switches (lid, headphone, dock) around tablet events and between them
  pub fault: Fault,
  pub family: String,
}

impl RealCase {
  pub fn to_json(&self) -> Value {
    json!({
      "real_descriptors": true,
      "family": self.family,
      "layout": serde_json::to_value(&self.layout).unwrap(),
      "layout_text": layout_text(&self.layout),
      "with_tablet_fd": self.with_tablet_fd,
      "evdev_framing": self.evdev_framing,
      "tablet_noise": self.tablet_noise,
      "fault": match self.fault { Fault::SinkClosed => "sink-closed".to_string(), Fault::KeyboardReset => "keyboard-reset".to_string(), Fault::TabletReset => "tablet-reset".to_string(), Fault::SinkFull(n) => format!("sink-full-{}", n) },
      "phases": self.phases.iter().map(|p| match p {
        Phase::Keys { events, writes } => json!({"keys": events.iter().map(ev_text).collect::<Vec<_>>(), "writes": writes}),
        Phase::Tablet(t) => json!({"tablet": t}),
        Phase::Joint { events, writes, tablet, tablet_first } => json!({"joint_keys": events.iter().map(ev_text).collect::<Vec<_>>(), "writes": writes, "joint_tablet": tablet, "tablet_first": tablet_first}),
        Phase::Interrupt => json!("interrupt"),
      }).collect::<Vec<_>>(),
    })
  }
  pub fn from_json(v: &Value) -> Result<RealCase, String> {
    let layout: Layout = serde_json::from_value(v.get("layout").cloned().ok_or("no layout")?).map_err(|e| e.to_string())?;
    let mut phases = Vec::new();
    for p in v.get("phases").and_then(|p| p.as_array()).ok_or("no phases")? {
      if p.as_str() == Some("interrupt") {
        phases.push(Phase::Interrupt);
      } else if let Some(k) = p.get("joint_keys").and_then(|k| k.as_array()) {
        let events: Vec<Event> = k.iter().map(|x| x.as_str().and_then(ev_from_text).ok_or_else(|| format!("bad event {}", x))).collect::<Result<_, _>>()?;
        let tablet: Vec<bool> = p.get("joint_tablet").and_then(|t| t.as_array()).map(|t| t.iter().map(|b| b.as_bool().unwrap_or(false)).collect()).unwrap_or_default();
        phases.push(Phase::Joint { events, writes: p.get("writes").and_then(|w| w.as_u64()).unwrap_or(1) as usize, tablet, tablet_first: p.get("tablet_first").and_then(|b| b.as_bool()).unwrap_or(false) });
      } else if let Some(t) = p.get("tablet").and_then(|t| t.as_array()) {
        phases.push(Phase::Tablet(t.iter().map(|b| b.as_bool().unwrap_or(false)).collect()));
      } else if let Some(k) = p.get("keys").and_then(|k| k.as_array()) {
        let events: Vec<Event> = k.iter().map(|x| x.as_str().and_then(ev_from_text).ok_or_else(|| format!("bad event {}", x))).collect::<Result<_, _>>()?;
        phases.push(Phase::Keys { events, writes: p.get("writes").and_then(|w| w.as_u64()).unwrap_or(1) as usize });
      } else {
        return Err(format!("bad phase {}", p));
      }
    }
    let fault = match v.get("fault").and_then(|f| f.as_str()).unwrap_or("keyboard-reset") {
      "sink-closed" => Fault::SinkClosed,
      "tablet-reset" => Fault::TabletReset,
      f if f.starts_with("sink-full-") => Fault::SinkFull(f["sink-full-".len()..].parse().unwrap_or(0)),
      _ => Fault::KeyboardReset,
    };
    Ok(RealCase {
      layout,
      phases,
      with_tablet_fd: v.get("with_tablet_fd").and_then(|b| b.as_bool()).unwrap_or(true),
      evdev_framing: v.get("evdev_framing").and_then(|b| b.as_bool()).unwrap_or(false),
      tablet_noise: v.get("tablet_noise").and_then(|b| b.as_bool()).unwrap_or(false),
      fault,
      family: v.get("family").and_then(|f| f.as_str()).unwrap_or("replay").to_string(),
    })
  }
}

pub fn is_real_case(v: &Value) -> bool {
  v.get("real_descriptors").and_then(|b| b.as_bool()).unwrap_or(false)
}

// ---- generation -------------------------------------------------------------------------------

pub fn gen_real_case(src: &mut Src, which: u32) -> Option<RealCase> {
  let gw = match which {
    10 => 10,
    12 => 12,
    _ => if src.chance(50) { 12 } else { 10 },
  };
  let c = gen_loop_case(src, gw, true)?;
  let mut layout = c.layout.clone();
  for m in layout.mappings.iter_mut() {
    if let Repeat::Special { .. } = m.repeat {
      m.repeat = Repeat::Disabled;
    }
  }
  let kb = &c.script.kb_events;
  if kb.len() > 900 {
    return None;
  }
  let mut phases: Vec<Phase> = Vec::new();
  let mut idx = 0usize;
  let with_tablet_events = true;
  for a in &c.script.actions {
    match a {
      Action::Arrive { kb: n, tablet, tablet_first, mid, .. } => {
        let extra: usize = mid.iter().map(|(_, m)| *m).sum();
        let take = (*n + extra).min(kb.len() - idx);
        let keys = if take > 0 { Some(Phase::Keys { events: kb[idx..idx + take].to_vec(), writes: 1 + mid.len().min(take.saturating_sub(1)) }) } else { None };
        idx += take;
        let tab = if with_tablet_events && !tablet.is_empty() { Some(Phase::Tablet(tablet.clone())) } else { None };
        if let (Some(Phase::Keys { events, writes }), Some(Phase::Tablet(t)), true) = (&keys, &tab, src.chance(40)) {
          phases.push(Phase::Joint { events: events.clone(), writes: *writes, tablet: t.clone(), tablet_first: *tablet_first });
        } else if *tablet_first {
          phases.extend(tab);
          phases.extend(keys);
        } else {
          phases.extend(keys);
          phases.extend(tab);
        }
      }
      Action::Interrupted => {
        // never two interruptions without a device event in between (the loop's back-off sleeps 4 s)
        if !matches!(phases.last(), Some(Phase::Interrupt) | None) {
          phases.push(Phase::Interrupt);
        }
      }
      Action::TimedOut => {}
    }
  }
  if idx < kb.len() {
    phases.push(Phase::Keys { events: kb[idx..].to_vec(), writes: 1 + src.below(3) });
  }
  // an interruption must be followed by a device event before the next one; drop a trailing one
  while matches!(phases.last(), Some(Phase::Interrupt)) {
    phases.pop();
  }
  let has_tablet = phases.iter().any(|p| matches!(p, Phase::Tablet(_) | Phase::Joint { .. }));
  let with_tablet_fd = has_tablet || src.chance(50);
  let fault = match which {
    20 => match src.weighted(&[30, 25, 15, 30]) {
      0 => Fault::SinkClosed,
      1 => Fault::KeyboardReset,
      2 => if with_tablet_fd { Fault::TabletReset } else { Fault::KeyboardReset },
      _ => Fault::SinkFull(src.pick(&[0usize, 24, 40, 47])),
    },
    _ => Fault::KeyboardReset,
  };
  let evdev_framing = src.chance(60);
  let tablet_noise = with_tablet_fd && src.chance(50);
  Some(RealCase { layout, phases, with_tablet_fd, evdev_framing, tablet_noise, fault, family: format!("real:{}", c.family) })
}

// ---- descriptors --------------------------------------------------------------------------------

fn rec(type_: u16, code: u16, value: i32) -> [u8; 24] {
  let mut b = [0u8; 24];
  b[16..18].copy_from_slice(&type_.to_ne_bytes());
  b[18..20].copy_from_slice(&code.to_ne_bytes());
  b[20..24].copy_from_slice(&value.to_ne_bytes());
  b
}

fn key_rec(e: &Event) -> [u8; 24] {
  match e {
    Event::Pressed(k) => rec(1, *k as i32 as u16, 1),
    Event::Released(k) => rec(1, *k as i32 as u16, 0),
  }
}

fn write_all(fd: RawFd, mut data: &[u8]) -> bool {
  while !data.is_empty() {
    let n = unsafe { libc::write(fd, data.as_ptr() as *const libc::c_void, data.len()) };
    if n <= 0 {
      return false;
    }
    data = &data[n as usize..];
  }
  true
}

fn unread(fd: RawFd) -> i64 {
  let mut n: libc::c_int = 0;
  let r = unsafe { libc::ioctl(fd, libc::FIONREAD, &mut n) };
  if r < 0 { -1 } else { n as i64 }
}

fn set_nonblock(fd: RawFd) {
  unsafe {
    let fl = libc::fcntl(fd, libc::F_GETFL);
    libc::fcntl(fd, libc::F_SETFL, fl | libc::O_NONBLOCK);
  }
}

// (loop's end - non-blocking like a device opened by the tool -, feeder's end)
fn socket_pair() -> Option<(RawFd, RawFd)> {
  let mut sv = [0 as libc::c_int; 2];
  let r = unsafe { libc::socketpair(libc::AF_UNIX, libc::SOCK_STREAM | libc::SOCK_CLOEXEC, 0, sv.as_mut_ptr()) };
  if r != 0 {
    return None;
  }
  set_nonblock(sv[0]);
  Some((sv[0], sv[1]))
}

fn sink_pipe() -> Option<(RawFd, RawFd)> {
  let mut p = [0 as libc::c_int; 2];
  let r = unsafe { libc::pipe2(p.as_mut_ptr(), libc::O_CLOEXEC) };
  if r != 0 {
    return None;
  }
  unsafe {
    libc::fcntl(p[1], libc::F_SETPIPE_SZ, 1 << 20);
  }
  set_nonblock(p[0]);
  set_nonblock(p[1]); // the tool opens /dev/uinput with O_NONBLOCK
  Some((p[0], p[1]))
}

fn drain_sink(fd: RawFd, into: &mut Vec<u8>) {
  let mut buf = [0u8; 8192];
  loop {
    let n = unsafe { libc::read(fd, buf.as_mut_ptr() as *mut libc::c_void, buf.len()) };
    if n <= 0 {
      break;
    }
    into.extend_from_slice(&buf[..n as usize]);
  }
}

extern "C" fn noop_handler(_: libc::c_int) {}

fn install_signal_handler() {
  static ONCE: std::sync::Once = std::sync::Once::new();
  ONCE.call_once(|| unsafe {
    let mut sa: libc::sigaction = std::mem::zeroed();
    sa.sa_sigaction = noop_handler as usize;
    sa.sa_flags = 0; // no SA_RESTART: epoll_wait returns EINTR
    libc::sigemptyset(&mut sa.sa_mask);
    libc::sigaction(libc::SIGUSR2, &sa, std::ptr::null_mut());
  });
}

// the number of the system call the thread is blocked in, None while it runs in user mode
fn syscall_of(tid: i32) -> Result<Option<i64>, ()> {
  let text = std::fs::read_to_string(format!("/proc/self/task/{}/syscall", tid)).map_err(|_| ())?;
  let first = text.split_whitespace().next().unwrap_or("");
  Ok(first.parse::<i64>().ok())
}

fn in_epoll_wait(tid: i32) -> Result<bool, ()> {
  // x86-64: epoll_wait 232, epoll_pwait 281, epoll_pwait2 441; a loop that waits with poll 7,
  // ppoll 271, select 23 or pselect6 270 instead is waiting just as well
  Ok(matches!(syscall_of(tid)?, Some(232) | Some(281) | Some(441) | Some(7) | Some(271) | Some(23) | Some(270)))
}

// Cases whose waits ran out (never a verdict). After a few of them the stage stops running
// cases: whatever the reason (a loop that waits in some other way, a frozen machine), more of
// them would only burn the time budget.
static INCONCLUSIVE: std::sync::atomic::AtomicU32 = std::sync::atomic::AtomicU32::new(0);
const MAX_INCONCLUSIVE: u32 = 12;

pub fn proc_syscall_readable() -> bool {
  let tid = unsafe { libc::syscall(libc::SYS_gettid) } as i32;
  std::fs::read_to_string(format!("/proc/self/task/{}/syscall", tid)).is_ok() && cfg!(target_arch = "x86_64")
}

#[derive(Debug, PartialEq)]
enum Quiet {
  Quiet,
  StuckUnread(i64),
  Finished,
  Inconclusive,
}

struct Run {
  tid: i32,
  done: Arc<AtomicBool>,
  inputs: Vec<RawFd>, // the loop's ends of the keyboard and tablet sockets
}

// Observation-counted (never wall-clock-counted: a stopped process stops the observer too).
fn wait_quiet(r: &Run) -> Quiet {
  let mut stuck = 0u32;
  for i in 0..8_000u32 {
    if r.done.load(Ordering::SeqCst) {
      return Quiet::Finished;
    }
    let n: i64 = r.inputs.iter().map(|fd| unread(*fd).max(0)).sum();
    match in_epoll_wait(r.tid) {
      Err(()) => return if r.done.load(Ordering::SeqCst) { Quiet::Finished } else { Quiet::Inconclusive },
      Ok(true) => {
        if n == 0 {
          // once more: nothing arrives unless this thread writes it
          let n2: i64 = r.inputs.iter().map(|fd| unread(*fd).max(0)).sum();
          if n2 == 0 && in_epoll_wait(r.tid) == Ok(true) && !r.done.load(Ordering::SeqCst) {
            return Quiet::Quiet;
          }
        } else {
          stuck += 1;
          if stuck >= 600 && i >= 1_000 {
            return Quiet::StuckUnread(n);
          }
        }
      }
      Ok(false) => {
        stuck = 0;
      }
    }
    if i < 200 {
      std::thread::yield_now();
    } else if i < 1_000 {
      std::thread::sleep(std::time::Duration::from_micros(200));
    } else {
      std::thread::sleep(std::time::Duration::from_millis(5));
    }
  }
  Quiet::Inconclusive
}

// After a failure that arrives without data (a reset): the loop's thread either ends or is found
// back in epoll_wait. "Nothing unread and in epoll_wait" also holds before the thread has been
// woken, so being back there only counts when it is stable over hundreds of observations.
fn wait_end(r: &Run) -> Quiet {
  let mut stuck = 0u32;
  for i in 0..8_000u32 {
    if r.done.load(Ordering::SeqCst) {
      return Quiet::Finished;
    }
    match in_epoll_wait(r.tid) {
      Err(()) => return if r.done.load(Ordering::SeqCst) { Quiet::Finished } else { Quiet::Inconclusive },
      Ok(true) => {
        stuck += 1;
        if stuck >= 600 && i >= 1_000 {
          return Quiet::Quiet;
        }
      }
      Ok(false) => stuck = 0,
    }
    if i < 200 {
      std::thread::yield_now();
    } else if i < 1_000 {
      std::thread::sleep(std::time::Duration::from_micros(200));
    } else {
      std::thread::sleep(std::time::Duration::from_millis(5));
    }
  }
  Quiet::Inconclusive
}

// ---- the oracle's side ----------------------------------------------------------------------------

fn records(bytes: &[u8]) -> Result<Vec<(u16, u16, i32)>, String> {
  if bytes.len() % 24 != 0 {
    return Err(format!("{} bytes are not a whole number of 24-byte records", bytes.len()));
  }
  Ok(bytes.chunks(24).map(|b| (u16::from_ne_bytes([b[16], b[17]]), u16::from_ne_bytes([b[18], b[19]]), i32::from_ne_bytes([b[20], b[21], b[22], b[23]]))).collect())
}

fn expect_records(evs: &[Event]) -> Vec<(u16, u16, i32)> {
  let mut v: Vec<(u16, u16, i32)> = evs.iter().map(|e| match e { Event::Pressed(k) => (1u16, *k as i32 as u16, 1), Event::Released(k) => (1u16, *k as i32 as u16, 0) }).collect();
  v.push((0, 0, 0));
  v
}

fn recs_text(r: &[(u16, u16, i32)]) -> String {
  let all = all_key_codes();
  r.iter().map(|(t, c, v)| {
    if *t == 0 && *c == 0 { "SYN".to_string() }
    else if *t == 1 { format!("{}{}", if *v == 1 { "+" } else if *v == 0 { "-" } else { "?" }, all.iter().find(|k| **k as i32 as u16 == *c).map(|k| key_name(*k)).unwrap_or(format!("#{}", c))) }
    else { format!("({},{},{})", t, c, v) }
  }).collect::<Vec<_>>().join(" ")
}


// what one device's part of a phase owes the sink
enum Seg {
  Exact { recs: Vec<(u16, u16, i32)>, judge: bool, tablet_on: bool },
  Release { held_before: Vec<KeyCode>, judge: bool },
}

#[derive(Default, Debug, Clone)]
pub struct RealFacts {
  pub joint_phases: u32,
  pub key_events: u32,
  pub multi_event_writes: u32,
  pub tablet_events: u32,
  pub interrupts: u32,
  pub output_records: u32,
  pub on_with_keys_held: u32,
  pub fault: &'static str,
  pub skipped: bool,
  pub inconclusive: bool,
}

// Runs one case. `which` selects the clauses that are judged (10: content before the first
// tablet event, unread-while-waiting, early return; 12: everything from the first tablet event
// on; 20: the ending).
pub fn run_real_case(which: u32, c: &RealCase, facts: &mut RealFacts) -> Result<(), Violation> {
  if !proc_syscall_readable() || INCONCLUSIVE.load(Ordering::SeqCst) >= MAX_INCONCLUSIVE {
    facts.skipped = true;
    return Ok(());
  }
  install_signal_handler();
  let (kb_loop, kb_feed) = socket_pair().ok_or_else(|| Violation::new("io", "socketpair failed".into()))?;
  let tab = if c.with_tablet_fd { Some(socket_pair().ok_or_else(|| Violation::new("io", "socketpair failed".into()))?) } else { None };
  let (sink_r, sink_w) = sink_pipe().ok_or_else(|| Violation::new("io", "pipe failed".into()))?;
  let tid_cell = Arc::new(AtomicI32::new(0));
  let done = Arc::new(AtomicBool::new(false));
  let result: Arc<Mutex<Option<Result<(), String>>>> = Arc::new(Mutex::new(None));
  let handle = {
    let (tid_cell, done, result, layout) = (tid_cell.clone(), done.clone(), result.clone(), c.layout.clone());
    let tab_loop = tab.map(|t| t.0);
    std::thread::Builder::new().stack_size(1 << 20).spawn(move || {
      tid_cell.store(unsafe { libc::syscall(libc::SYS_gettid) } as i32, Ordering::SeqCst);
      let r = std::panic::catch_unwind(std::panic::AssertUnwindSafe(|| crate::remapping_loop::verif::run_real_fds(kb_loop, tab_loop, sink_w, layout, false)));
      let r = match r {
        Ok(r) => r,
        Err(p) => Err(format!("PANIC: {}", panic_message(&p))),
      };
      *result.lock().unwrap() = Some(r);
      done.store(true, Ordering::SeqCst);
    }).map_err(|e| Violation::new("io", format!("spawn failed: {}", e)))?
  };
  while tid_cell.load(Ordering::SeqCst) == 0 {
    std::thread::yield_now();
  }
  let run = Run { tid: tid_cell.load(Ordering::SeqCst), done: done.clone(), inputs: std::iter::once(kb_loop).chain(tab.map(|t| t.0)).collect() };

  // what may be closed when: the feeder's ends must stay open while the loop lives (EOF makes the
  // device reader spin), so on every early exit the thread is ended by a keyboard reset
  let mut kb_feed_open = true;
  let mut sink_r_open = true;
  let end_by_reset = |kb_feed_open: &mut bool| {
    if *kb_feed_open {
      write_all(kb_loop, &[0u8]);
      unsafe { libc::close(kb_feed) };
      *kb_feed_open = false;
    }
  };

  let mut verdict: Result<(), Violation> = Ok(());
  let mut twin = Mapper::for_layout(&c.layout);
  let mut held: Vec<KeyCode> = Vec::new(); // folded content of the sink
  let mut phys: Vec<KeyCode> = Vec::new(); // physically held (for auto-repeat records)
  let mut tablet_on = false;
  let mut seen_tablet = false;
  let mut sink: Vec<u8> = Vec::new();
  let mut judged = 0usize; // bytes of the sink already judged
  let mut fed_text: Vec<String> = Vec::new();
  let mut ambiguous = false; // set by the first wake-up that carries keyboard and tablet events

  let fold = |held: &mut Vec<KeyCode>, evs: &[Event]| {
    for e in evs {
      match e {
        Event::Pressed(k) => if !held.contains(k) { held.push(*k) },
        Event::Released(k) => held.retain(|x| x != k),
      }
    }
  };

  // initial quiescence
  let mut q = wait_quiet(&run);
  'phases: for (pi, ph) in c.phases.iter().enumerate() {
    match q {
      Quiet::Quiet => {}
      Quiet::Finished => {
        if which == 10 || which == 12 {
          let r = result.lock().unwrap().clone();
          verdict = Err(Violation::new("real-loop-returned-early", format!("before phase {} the loop on the real driver returned {:?} although the keyboard is still there and no call failed; fed so far: {}", pi, r, fed_text.join(" | "))));
        }
        break 'phases;
      }
      Quiet::StuckUnread(_) | Quiet::Inconclusive => break 'phases,
    }
    let mut segs: Vec<Seg> = Vec::new();
    // one device's part of a phase: simulate, remember what is owed, write
    // Keyboard and tablet events of one wake-up: the readiness list says which device became
    // ready first, but nothing documents that a loop must honour that (a property-preserving
    // change that always drains the tablet switch first was written by an independent agent, a
    // breaking one that always drains the keyboard first by another: the texts of C10 and C12
    // do not decide between them). So the content of such a phase is not judged, and since the
    // mapper's state afterwards depends on the order taken, neither is the content of the
    // phases after it; waiting with unread events, an early return and the ending still are.
    if let Phase::Joint { .. } = ph {
      if tab.is_some() {
        ambiguous = true;
      }
    }
    let mut feed_keys = |events: &Vec<Event>, writes: usize, noise: bool, segs: &mut Vec<Seg>, twin: &mut Mapper, held: &mut Vec<KeyCode>, phys: &mut Vec<KeyCode>, tablet_on: bool, seen_tablet: bool, facts: &mut RealFacts| -> bool {
      facts.key_events += events.len() as u32;
      let mut expected: Vec<(u16, u16, i32)> = Vec::new();
      let mut bytes_per_event: Vec<Vec<u8>> = Vec::new();
      for (ei, e) in events.iter().enumerate() {
        let mut b: Vec<u8> = Vec::new();
        if c.evdev_framing && ei % 3 == 1 {
          // a packet without a key in it, in the same batch: an LED echo or pointer motion
          if ei % 2 == 1 { b.extend_from_slice(&rec(0x11, 1, 1)); } else { b.extend_from_slice(&rec(2, 0, 5)); }
          b.extend_from_slice(&rec(0, 0, 0));
        }
        if c.evdev_framing {
          b.extend_from_slice(&rec(4, 4, 0x70000 + (match e { Event::Pressed(k) | Event::Released(k) => *k as i32 })));
        }
        b.extend_from_slice(&key_rec(e));
        if c.evdev_framing {
          b.extend_from_slice(&rec(0, 0, 0));
          if let Some(k) = phys.last() {
            // the kernel's auto-repeat of the key pressed last
            b.extend_from_slice(&rec(1, *k as i32 as u16, 2));
            b.extend_from_slice(&rec(0, 0, 0));
          }
        }
        match e {
          Event::Pressed(k) => if !phys.contains(k) { phys.push(*k) },
          Event::Released(k) => phys.retain(|x| x != k),
        }
        bytes_per_event.push(b);
        if !tablet_on {
          let out = twin.step(e.clone()).events;
          if !out.is_empty() {
            expected.extend(expect_records(&out));
            fold(held, &out);
          }
        }
      }
      segs.push(Seg::Exact { recs: expected, judge: !ambiguous && match which { 10 => !seen_tablet, 12 => seen_tablet, _ => false }, tablet_on });
      if noise && c.tablet_noise {
        if let Some((_, tab_feed)) = tab {
          // lid closed / opened, headphones: not the tablet-mode switch
          let mut b: Vec<u8> = Vec::new();
          for (code, v) in [(0u16, 1), (2, 1), (0, 0), (5, 1)] {
            b.extend_from_slice(&rec(5, code, if tablet_on { 1 - v } else { v }));
            b.extend_from_slice(&rec(0, 0, 0));
          }
          write_all(tab_feed, &b);
        }
      }
      let w = writes.max(1).min(events.len().max(1));
      if w > 1 || events.len() > 1 {
        facts.multi_event_writes += 1;
      }
      let per = (events.len() + w - 1) / w.max(1);
      for chunk in bytes_per_event.chunks(per.max(1)) {
        let flat: Vec<u8> = chunk.iter().flatten().cloned().collect();
        if !write_all(kb_feed, &flat) {
          return false;
        }
      }
      true
    };
    let feed_tablet = |evs: &Vec<bool>, tab_feed: RawFd, segs: &mut Vec<Seg>, twin: &mut Mapper, held: &mut Vec<KeyCode>, tablet_on: &mut bool, facts: &mut RealFacts| -> bool {
      facts.tablet_events += evs.len() as u32;
      let mut b: Vec<u8> = Vec::new();
      for on in evs {
        if c.tablet_noise {
          // the opposite value on the lid switch, in the same report
          b.extend_from_slice(&rec(5, 0, if *on { 0 } else { 1 }));
          b.extend_from_slice(&rec(5, 2, if *on { 0 } else { 1 }));
        }
        b.extend_from_slice(&rec(5, 1, if *on { 1 } else { 0 }));
        if c.evdev_framing {
          b.extend_from_slice(&rec(0, 0, 0));
        }
        if *on && !held.is_empty() {
          facts.on_with_keys_held += 1;
        }
        *tablet_on = *on;
      }
      segs.push(Seg::Release { held_before: held.clone(), judge: which == 12 && !ambiguous });
      held.clear();
      *twin = Mapper::for_layout(&c.layout);
      write_all(tab_feed, &b)
    };
    match ph {
      Phase::Keys { events, writes } => {
        if !feed_keys(events, *writes, true, &mut segs, &mut twin, &mut held, &mut phys, tablet_on, seen_tablet, facts) {
          verdict = Err(Violation::new("io", "write to the keyboard socket failed".into()));
          break 'phases;
        }
        fed_text.push(events.iter().map(ev_text).collect::<Vec<_>>().join(" "));
      }
      Phase::Tablet(evs) => {
        let (_, tab_feed) = match tab { Some(t) => t, None => continue };
        if !feed_tablet(evs, tab_feed, &mut segs, &mut twin, &mut held, &mut tablet_on, facts) {
          verdict = Err(Violation::new("io", "write to the tablet socket failed".into()));
          break 'phases;
        }
        seen_tablet = true;
        fed_text.push(format!("tablet {:?}", evs));
      }
      Phase::Joint { events, writes, tablet, tablet_first } => {
        facts.joint_phases += 1;
        let ok = match tab {
          None => feed_keys(events, *writes, false, &mut segs, &mut twin, &mut held, &mut phys, tablet_on, seen_tablet, facts),
          Some((_, tab_feed)) => {
            if *tablet_first {
              let a = feed_tablet(tablet, tab_feed, &mut segs, &mut twin, &mut held, &mut tablet_on, facts);
              seen_tablet = true;
              a && feed_keys(events, *writes, false, &mut segs, &mut twin, &mut held, &mut phys, tablet_on, seen_tablet, facts)
            } else {
              let a = feed_keys(events, *writes, false, &mut segs, &mut twin, &mut held, &mut phys, tablet_on, seen_tablet, facts);
              let b = a && feed_tablet(tablet, tab_feed, &mut segs, &mut twin, &mut held, &mut tablet_on, facts);
              seen_tablet = true;
              b
            }
          }
        };
        if !ok {
          verdict = Err(Violation::new("io", "write to an input socket failed".into()));
          break 'phases;
        }
        let kt = events.iter().map(ev_text).collect::<Vec<_>>().join(" ");
        fed_text.push(if *tablet_first { format!("same wake-up: tablet {:?} then {}", tablet, kt) } else { format!("same wake-up: {} then tablet {:?}", kt, tablet) });
      }
      Phase::Interrupt => {
        facts.interrupts += 1;
        unsafe { libc::syscall(libc::SYS_tgkill, libc::getpid(), run.tid, libc::SIGUSR2) };
        // let the thread leave epoll_wait (a yield is not a guarantee; the next wait_quiet
        // only needs it to be back there at some point)
        std::thread::sleep(std::time::Duration::from_micros(300));
        fed_text.push("interrupt".into());
      }
    }
    q = wait_quiet(&run);
    if sink_r_open {
      drain_sink(sink_r, &mut sink);
    }
    if let Quiet::StuckUnread(n) = q {
      if which == 10 {
        verdict = Err(Violation::new("real-waiting-with-unread-events", format!("after phase {} the loop sits in epoll_wait while {} bytes that it was notified about (edge-triggered) are unread on its input; fed so far: {}", pi, n, fed_text.join(" | "))));
      }
      break 'phases;
    }
    if q == Quiet::Inconclusive {
      break 'phases;
    }
    // judge what this phase wrote
    let got = match records(&sink[judged..]) {
      Ok(g) => g,
      Err(e) => {
        if which == 10 || which == 12 {
          verdict = Err(Violation::new("real-sink-garbled", format!("after phase {}: {}", pi, e)));
        }
        break 'phases;
      }
    };
    judged = sink.len();
    facts.output_records += got.len() as u32;
    // lone SYN records (empty batches) carry nothing: judge without them
    let strip = |v: &[(u16, u16, i32)]| -> Vec<(u16, u16, i32)> {
      let mut out: Vec<(u16, u16, i32)> = Vec::new();
      for r in v {
        if r.0 == 0 && r.1 == 0 && (out.is_empty() || out.last().map(|l| l.0 == 0 && l.1 == 0).unwrap_or(false)) { continue; }
        out.push(*r);
      }
      out
    };
    let gs = strip(&got);
    let mut idx = 0usize;
    let mut all_judged = true;
    let mut last_on = tablet_on;
    for seg in &segs {
      match seg {
        Seg::Exact { recs, judge, tablet_on: on } => {
          if !*judge { all_judged = false; break; }
          last_on = *on;
          let want = strip(recs);
          let have: &[(u16, u16, i32)] = if idx + want.len() <= gs.len() { &gs[idx..idx + want.len()] } else { &gs[idx.min(gs.len())..] };
          if have != &want[..] {
            let kind = if *on { "real-write-in-tablet-mode" } else if which == 12 { "real-not-fresh-after-tablet" } else { "real-output-differs" };
            verdict = Err(Violation::new(kind, format!("phase {} ({}): the sink got [{}] where the mapper owes [{}] (the whole phase wrote [{}]); fed so far: {}", pi, if *on { "tablet mode on" } else { "tablet mode off" }, recs_text(have), recs_text(&want), recs_text(&gs), fed_text.join(" | "))));
            break 'phases;
          }
          idx += want.len();
        }
        Seg::Release { held_before, judge } => {
          if !*judge { all_judged = false; break; }
          // C12: only releases until nothing is held (one batch or several)
          let mut h = held_before.clone();
          let mut bad: Option<String> = None;
          while !h.is_empty() {
            match gs.get(idx) {
              None => { bad = Some(format!("{:?} still held on the virtual keyboard", h.iter().map(|k| key_name(*k)).collect::<Vec<_>>())); break; }
              Some((0, 0, _)) => { idx += 1; }
              Some((1, cc, 0)) if h.iter().any(|k| *k as i32 as u16 == *cc) => { h.retain(|k| *k as i32 as u16 != *cc); idx += 1; }
              Some((t, cc, v)) => { bad = Some(format!("record ({},{},{}) is not the release of a held key while {:?} are still held", t, cc, v, h.iter().map(|k| key_name(*k)).collect::<Vec<_>>())); break; }
            }
          }
          if bad.is_none() && !held_before.is_empty() {
            if let Some((0, 0, _)) = gs.get(idx) { idx += 1; }
          }
          if let Some(b) = bad {
            verdict = Err(Violation::new("real-tablet-release", format!("at the tablet event of phase {} the sink got [{}]: {}; fed so far: {}", pi, recs_text(&gs), b, fed_text.join(" | "))));
            break 'phases;
          }
        }
      }
    }
    if all_judged && !segs.is_empty() && idx < gs.len() {
      let kind = if last_on { "real-write-in-tablet-mode" } else if which == 12 { "real-not-fresh-after-tablet" } else { "real-output-differs" };
      verdict = Err(Violation::new(kind, format!("phase {}: the sink got [{}], of which [{}] is owed to nothing; fed so far: {}", pi, recs_text(&gs), recs_text(&gs[idx..]), fed_text.join(" | "))));
      break 'phases;
    }
  }

  // ---- the ending: an injected failure --------------------------------------------------------
  let clean_so_far = verdict.is_ok() && q == Quiet::Quiet;
  if clean_so_far {
    match c.fault {
      Fault::SinkClosed if !tablet_on => {
        facts.fault = "sink-closed";
        unsafe { libc::close(sink_r) };
        sink_r_open = false;
        // a key outside the layout that is not held: its press passes through, the write fails
        let used: Vec<KeyCode> = c.layout.mappings.iter().flat_map(|m| m.from.iter().chain(m.to.iter()).cloned()).collect();
        let k = [KeyCode::KP7, KeyCode::KP8, KeyCode::KP9, KeyCode::KPMINUS, KeyCode::SCROLLLOCK, KeyCode::F9, KeyCode::F10, KeyCode::F11].iter().cloned().find(|k| !used.contains(k) && !phys.contains(k) && !held.contains(k));
        if let Some(k) = k {
          let owed = twin.step(Event::Pressed(k)).events;
          if !owed.is_empty() {
            write_all(kb_feed, &key_rec(&Event::Pressed(k)));
            match wait_quiet(&run) {
              Quiet::Finished => {
                let r = result.lock().unwrap().clone();
                if which == 20 && !matches!(r, Some(Err(_))) {
                  verdict = Err(Violation::new("real-write-failure-not-returned", format!("the write of [{}] failed with EPIPE and the loop returned {:?}", owed.iter().map(ev_text).collect::<Vec<_>>().join(" "), r)));
                }
              }
              Quiet::Quiet => {
                if which == 20 {
                  verdict = Err(Violation::new("real-write-failure-did-not-stop-the-loop", format!("the sink's read end is closed, the loop read +{} (it owes [{}], the write fails with EPIPE) and went back to waiting instead of returning the error; fed so far: {}", key_name(k), owed.iter().map(ev_text).collect::<Vec<_>>().join(" "), fed_text.join(" | "))));
                }
              }
              _ => { facts.inconclusive = true; }
            }
          }
        }
      }
      Fault::SinkFull(free) if !tablet_on => {
        facts.fault = "sink-full";
        drain_sink(sink_r, &mut sink);
        judged = sink.len();
        let cap = unsafe { libc::fcntl(sink_w, libc::F_SETPIPE_SZ, 4096) };
        let used: Vec<KeyCode> = c.layout.mappings.iter().flat_map(|m| m.from.iter().chain(m.to.iter()).cloned()).collect();
        let k = [KeyCode::KP7, KeyCode::KP8, KeyCode::KP9, KeyCode::KPMINUS, KeyCode::SCROLLLOCK, KeyCode::F9, KeyCode::F10, KeyCode::F11].iter().cloned().find(|k| !used.contains(k) && !phys.contains(k) && !held.contains(k));
        if let (4096, Some(k)) = (cap, k) {
          let owed = twin.step(Event::Pressed(k)).events;
          // one write into the empty one-page pipe: exactly `free` bytes of room remain
          let filled = write_all(sink_w, &vec![0u8; 4096 - free.min(47)]);
          if filled && owed.len() == 1 {
            write_all(kb_feed, &key_rec(&Event::Pressed(k)));
            match wait_quiet(&run) {
              Quiet::Finished => {
                let r = result.lock().unwrap().clone();
                if which == 20 && !matches!(r, Some(Err(_))) {
                  verdict = Err(Violation::new("real-write-failure-not-returned", format!("the write of [{}] failed with EAGAIN (sink full) and the loop returned {:?}", owed.iter().map(ev_text).collect::<Vec<_>>().join(" "), r)));
                }
              }
              Quiet::Quiet => {
                if which == 20 {
                  verdict = Err(Violation::new("real-write-failure-did-not-stop-the-loop", format!("the sink has {} bytes of room, the loop read +{} (it owes [{}] and a SYN_REPORT, 48 bytes: the write fails with EAGAIN) and went back to waiting instead of returning the error; fed so far: {}", free.min(47), key_name(k), owed.iter().map(ev_text).collect::<Vec<_>>().join(" "), fed_text.join(" | "))));
                }
              }
              _ => { facts.inconclusive = true; }
            }
          }
        }
      }
      Fault::TabletReset if tab.is_some() => {
        facts.fault = "tablet-reset";
        let (tab_loop, tab_feed) = tab.unwrap();
        write_all(tab_loop, &[0u8]);
        unsafe { libc::close(tab_feed) };
        match wait_end(&run) {
          Quiet::Finished => {
            let r = result.lock().unwrap().clone();
            if which == 20 && !matches!(r, Some(Err(_))) {
              verdict = Err(Violation::new("real-read-failure-not-returned", format!("the read on the tablet switch failed with ECONNRESET and the loop returned {:?}", r)));
            }
          }
          Quiet::Quiet => {
            if which == 20 {
              verdict = Err(Violation::new("real-read-failure-did-not-stop-the-loop", format!("the tablet switch reports ECONNRESET and the loop went back to waiting; fed so far: {}", fed_text.join(" | "))));
            }
          }
          _ => { facts.inconclusive = true; }
        }
        drain_sink(sink_r, &mut sink);
        if which == 20 && verdict.is_ok() && sink.len() != judged {
          verdict = Err(Violation::new("real-write-after-failure", format!("after the failed read on the tablet switch the sink got [{}]", records(&sink[judged..]).map(|r| recs_text(&r)).unwrap_or_default())));
        }
      }
      _ => {
        facts.fault = "keyboard-reset";
        write_all(kb_loop, &[0u8]);
        unsafe { libc::close(kb_feed) };
        kb_feed_open = false;
        match wait_end(&run) {
          Quiet::Finished => {
            let r = result.lock().unwrap().clone();
            if which == 20 && !matches!(r, Some(Err(_))) {
              verdict = Err(Violation::new("real-read-failure-not-returned", format!("the read on the keyboard failed with ECONNRESET and the loop returned {:?}", r)));
            }
          }
          Quiet::Quiet => {
            if which == 20 {
              verdict = Err(Violation::new("real-read-failure-did-not-stop-the-loop", format!("the keyboard reports ECONNRESET and the loop went back to waiting; fed so far: {}", fed_text.join(" | "))));
            }
          }
          _ => { facts.inconclusive = true; }
        }
        drain_sink(sink_r, &mut sink);
        if which == 20 && verdict.is_ok() && sink.len() != judged {
          verdict = Err(Violation::new("real-write-after-failure", format!("after the failed read on the keyboard the sink got [{}]", records(&sink[judged..]).map(|r| recs_text(&r)).unwrap_or_default())));
        }
      }
    }
  } else if verdict.is_ok() && matches!(q, Quiet::Inconclusive | Quiet::StuckUnread(_)) {
    facts.inconclusive = true;
  }

  // ---- end the thread, release the descriptors ---------------------------------------------------
  if !done.load(Ordering::SeqCst) {
    end_by_reset(&mut kb_feed_open);
    // give it a bounded number of observations; a thread that never ends is left behind
    for i in 0..2_000u32 {
      if done.load(Ordering::SeqCst) { break; }
      if i < 200 { std::thread::yield_now() } else { std::thread::sleep(std::time::Duration::from_millis(1)) }
    }
  }
  if done.load(Ordering::SeqCst) {
    let _ = handle.join();
    unsafe {
      libc::close(kb_loop);
      if kb_feed_open { libc::close(kb_feed); }
      if let Some((a, b)) = tab {
        libc::close(a);
        if !(c.fault == Fault::TabletReset && facts.fault == "tablet-reset") { libc::close(b); }
      }
      libc::close(sink_w);
      if sink_r_open { libc::close(sink_r); }
    }
  } else {
    facts.inconclusive = true;
  }
  if facts.inconclusive {
    INCONCLUSIVE.fetch_add(1, Ordering::SeqCst);
  }
  verdict
}

fn record_real(c: &RealCase, f: &RealFacts, stats: &mut Stats) {
  if f.skipped {
    stats.label("real-descriptors:skipped (/proc/self/task/<tid>/syscall not readable, or too many inconclusive cases)");
    return;
  }
  stats.label("real-descriptor-case");
  stats.label(&format!("real-ending:{}", if f.fault.is_empty() { "none" } else { f.fault }));
  if f.inconclusive { stats.label("real-inconclusive"); }
  if f.interrupts > 0 { stats.label("real-with-signal-interruption"); }
  if f.joint_phases > 0 { stats.label("real-keyboard-and-tablet-in-one-wake-up (content not judged from there on)"); }
  if f.tablet_events > 0 { stats.label("real-with-tablet-events"); }
  if f.on_with_keys_held > 0 { stats.label("real-tablet-on-with-keys-held"); }
  if c.evdev_framing { stats.label("real-evdev-framing"); }
  if c.tablet_noise { stats.label("real-other-switches-on-the-tablet-device"); }
  stats.count("real-key-events-fed", f.key_events as u64);
  stats.count("real-output-records", f.output_records as u64);
  if f.multi_event_writes > 0 && f.output_records > 0 {
    stats.nontrivial_case(hash64(&c.to_json().to_string()));
  }
  if stats.want_sample() && f.output_records > 0 {
    stats.samples.push(c.to_json());
  }
}

// The stage, appended to the checks of C10, C12 and C20. Returns true when a violation was added.
pub fn stage(which: u32, cfg: &RunCfg, findings: &Findings, rep: &mut Report) -> bool {
  let name = format!("C{:02}", which);
  if !proc_syscall_readable() {
    rep.stats.label("real-descriptors:stage skipped (/proc/self/task/<tid>/syscall not readable)");
    return false;
  }
  let quick = cfg.tier == Tier::Quick;
  let per_shard: u32 = if quick { 250 } else { 4_000 };
  // every failing case as first observed (also during shrinking): on a changed tree a verdict
  // of this stage can depend on how the loop's thread was scheduled; if the shrunk case does
  // not fail again, the smallest case that did fail is reported instead of "flaky"
  let observed: Mutex<Vec<(String, Violation)>> = Mutex::new(Vec::new());
  let (st, fail) = run_prop_iters(
    cfg,
    &format!("{}-real-descriptors", name),
    16,
    per_shard,
    64,
    1000,
    60,
    |src: &mut Src| gen_real_case(src, which),
    |c: &Option<RealCase>, stats: &mut Stats| {
      let c = match c {
        Some(c) => c,
        None => {
          stats.discards += 1;
          return Ok(());
        }
      };
      let mut f = RealFacts::default();
      match run_real_case(which, c, &mut f) {
        Ok(()) => {
          record_real(c, &f, stats);
          Ok(())
        }
        Err(v) => {
          if v.kind == "io" {
            stats.label("real-descriptors:io-problem");
            return Ok(());
          }
          if let Some(k) = findings.is_known(&name, &v) {
            stats.known(&k.signature);
            return Ok(());
          }
          if std::env::var("VERIF_DEBUG").is_ok() {
            eprintln!("[real] {}: {} | {}", v.kind, v.detail, c.to_json());
          }
          if let Ok(mut o) = observed.lock() {
            if o.len() < 10_000 {
              o.push((c.to_json().to_string(), v.clone()));
            }
          }
          Err(v)
        }
      }
    },
  );
  rep.stats.merge(st);
  if let Some(f) = fail {
    if f.violation.kind == "flaky" {
      let mut o = observed.lock().map(|o| o.clone()).unwrap_or_default();
      o.sort_by(|a, b| (a.0.len(), &a.0).cmp(&(b.0.len(), &b.0)));
      if let Some((case_text, mut v)) = o.into_iter().next() {
        v.detail = format!("{} (seen once: the verdict depended on how the loop's thread was scheduled - the case did not fail again when it was re-run; the replay file holds the smallest case that failed)", v.detail);
        let case: Value = serde_json::from_str(&case_text).unwrap_or(Value::Null);
        let path = write_replay(&name, &v, &case);
        rep.violations.push((v, path));
        return true;
      }
    }
    if let Some(c) = f.case {
      let path = write_replay(&name, &f.violation, &c.to_json());
      rep.violations.push((f.violation, path));
      return true;
    }
  }
  false
}

pub fn replay(which: u32, v: &Value) -> Result<(), Violation> {
  let c = RealCase::from_json(v).map_err(|e| Violation::new("io", e))?;
  let mut f = RealFacts::default();
  run_guarded(|| run_real_case(which, &c, &mut f))
}
