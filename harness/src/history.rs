// Histories of physical key events (well-formed and ill-formed) and the mapper case type.

use crate::kb::*;
use crate::keys::{Event, KeyCode, Layout};
use crate::tape::Src;
use serde_json::{json, Value};

#[derive(Clone, Debug, PartialEq, Eq)]
pub enum Step {
  Ev(Event),
  ReleaseAll,
}

// (no trait is implemented on the repository's own types: Step hashes its event by hand)
impl std::hash::Hash for Step {
  fn hash<H: std::hash::Hasher>(&self, state: &mut H) {
    match self {
      Step::Ev(Event::Pressed(k)) => {
        1u8.hash(state);
        k.hash(state);
      }
      Step::Ev(Event::Released(k)) => {
        0u8.hash(state);
        k.hash(state);
      }
      Step::ReleaseAll => 2u8.hash(state),
    }
  }
}

pub fn step_text(s: &Step) -> String {
  match s {
    Step::Ev(e) => ev_text(e),
    Step::ReleaseAll => "!".to_string(),
  }
}

pub fn steps_text(ss: &[Step]) -> String {
  ss.iter().map(step_text).collect::<Vec<_>>().join(" ")
}

pub fn step_from_text(s: &str) -> Option<Step> {
  if s == "!" {
    Some(Step::ReleaseAll)
  } else {
    ev_from_text(s).map(Step::Ev)
  }
}

#[derive(Clone, Debug)]
pub struct MapperCase {
  pub layout: Layout,
  pub alphabet: Vec<KeyCode>,
  pub steps: Vec<Step>,
  pub family: String,
}

impl MapperCase {
  pub fn to_json(&self) -> Value {
    json!({
      "family": self.family,
      "layout": serde_json::to_value(&self.layout).unwrap(),
      "layout_text": layout_text(&self.layout),
      "alphabet": self.alphabet.iter().map(|k| key_name(*k)).collect::<Vec<_>>(),
      "history": self.steps.iter().map(step_text).collect::<Vec<_>>(),
    })
  }
  pub fn from_json(v: &Value) -> Result<MapperCase, String> {
    let layout: Layout = serde_json::from_value(v.get("layout").cloned().ok_or("no layout")?).map_err(|e| e.to_string())?;
    let alphabet: Vec<KeyCode> = v
      .get("alphabet")
      .and_then(|a| a.as_array())
      .ok_or("no alphabet")?
      .iter()
      .filter_map(|x| x.as_str().and_then(key_from_name))
      .collect();
    let steps: Vec<Step> = v
      .get("history")
      .and_then(|a| a.as_array())
      .ok_or("no history")?
      .iter()
      .map(|x| x.as_str().and_then(step_from_text).ok_or_else(|| format!("bad step {}", x)))
      .collect::<Result<_, _>>()?;
    let family = v.get("family").and_then(|f| f.as_str()).unwrap_or("replay").to_string();
    Ok(MapperCase { layout, alphabet, steps, family })
  }
  pub fn canonical_hash(&self) -> u64 {
    crate::engine::hash64(&(layout_text(&self.layout), &self.steps))
  }
}

#[derive(Clone, Copy, Debug)]
pub struct HistOpts {
  pub max_events: usize,
  pub max_held: usize,
  pub raw_percent: u32,
  pub release_all_percent: u32,
}

// `Press` picks the i-th not-held key, `Release` the i-th held key, `Raw` any key in any
// direction (duplicate presses, releases of keys never pressed).
pub fn gen_history(src: &mut Src, alphabet: &[KeyCode], o: &HistOpts) -> Vec<Step> {
  let n = src.below(o.max_events + 1);
  let mut held: Vec<KeyCode> = Vec::new();
  let mut out = Vec::with_capacity(n + 6);
  let max_held = o.max_held.max(1);
  let w_press = 50u32;
  let w_release = 100 - w_press - o.raw_percent - o.release_all_percent;
  for _ in 0..n {
    let kind = src.weighted(&[w_press, w_release, o.raw_percent, o.release_all_percent]);
    let idx = src.u32();
    let not_held: Vec<KeyCode> = alphabet.iter().cloned().filter(|k| !held.contains(k)).collect();
    let pick = |v: &Vec<KeyCode>| v[((idx as u64 * v.len() as u64) >> 32) as usize];
    let mut do_press = |held: &mut Vec<KeyCode>, out: &mut Vec<Step>| {
      let k = pick(&not_held);
      held.push(k);
      out.push(Step::Ev(Event::Pressed(k)));
    };
    match kind {
      0 => {
        if held.len() < max_held && !not_held.is_empty() {
          do_press(&mut held, &mut out);
        } else if !held.is_empty() {
          let k = pick(&held);
          held.retain(|x| *x != k);
          out.push(Step::Ev(Event::Released(k)));
        }
      }
      1 => {
        if !held.is_empty() {
          let k = pick(&held);
          held.retain(|x| *x != k);
          out.push(Step::Ev(Event::Released(k)));
        } else if !not_held.is_empty() {
          do_press(&mut held, &mut out);
        }
      }
      2 => {
        let all: Vec<KeyCode> = alphabet.to_vec();
        let k = pick(&all);
        if idx & 1 == 0 {
          // duplicate press allowed; a raw press of a new key still respects the bound on held keys
          if held.contains(&k) || held.len() < max_held {
            if !held.contains(&k) {
              held.push(k);
            }
            out.push(Step::Ev(Event::Pressed(k)));
          }
        } else {
          held.retain(|x| *x != k);
          out.push(Step::Ev(Event::Released(k)));
        }
      }
      _ => {
        held.clear();
        out.push(Step::ReleaseAll);
      }
    }
  }
  // optional suffix: release everything in a generated order
  if src.chance(60) {
    let mut order = held.clone();
    src.shuffle(&mut order);
    for k in order {
      out.push(Step::Ev(Event::Released(k)));
    }
  }
  out
}
