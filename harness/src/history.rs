// Histories of physical key events (well-formed and ill-formed) and the mapper case type.

use crate::kb::*;
use crate::keys::{Event, KeyCode, Layout};
use crate::tape::Src;
use serde_json::{json, Value};

#[derive(Clone, Debug, PartialEq, Eq)]
pub enum Step {
  Ev(Event),
  ReleaseAll,
}

// (no trait is implemented on the repository's own types: Step hashes its event by hand)
impl std::hash::Hash for Step {
  fn hash<H: std::hash::Hasher>(&self, state: &mut H) {
    match self {
      Step::Ev(Event::Pressed(k)) => {
        1u8.hash(state);
        k.hash(state);
      }
      Step::Ev(Event::Released(k)) => {
        0u8.hash(state);
        k.hash(state);
      }
      Step::ReleaseAll => 2u8.hash(state),
    }
  }
}

pub fn step_text(s: &Step) -> String {
  match s {
    Step::Ev(e) => ev_text(e),
    Step::ReleaseAll => "!".to_string(),
  }
}

pub fn steps_text(ss: &[Step]) -> String {
  ss.iter().map(step_text).collect::<Vec<_>>().join(" ")
}

pub fn step_from_text(s: &str) -> Option<Step> {
  if s == "!" {
    Some(Step::ReleaseAll)
  } else {
    ev_from_text(s).map(Step::Ev)
  }
}

#[derive(Clone, Debug)]
pub struct MapperCase {
  pub layout: Layout,
  pub alphabet: Vec<KeyCode>,
  pub steps: Vec<Step>,
  pub family: String,
}

impl MapperCase {
  pub fn to_json(&self) -> Value {
    json!({
      "family": self.family,
      "layout": serde_json::to_value(&self.layout).unwrap(),
      "layout_text": layout_text(&self.layout),
      "alphabet": self.alphabet.iter().map(|k| key_name(*k)).collect::<Vec<_>>(),
      "history": self.steps.iter().map(step_text).collect::<Vec<_>>(),
    })
  }
  pub fn from_json(v: &Value) -> Result<MapperCase, String> {
    let layout: Layout = serde_json::from_value(v.get("layout").cloned().ok_or("no layout")?).map_err(|e| e.to_string())?;
    let alphabet: Vec<KeyCode> = v
      .get("alphabet")
      .and_then(|a| a.as_array())
      .ok_or("no alphabet")?
      .iter()
      .filter_map(|x| x.as_str().and_then(key_from_name))
      .collect();
    let steps: Vec<Step> = v
      .get("history")
      .and_then(|a| a.as_array())
      .ok_or("no history")?
      .iter()
      .map(|x| x.as_str().and_then(step_from_text).ok_or_else(|| format!("bad step {}", x)))
      .collect::<Result<_, _>>()?;
    let family = v.get("family").and_then(|f| f.as_str()).unwrap_or("replay").to_string();
    Ok(MapperCase { layout, alphabet, steps, family })
  }
  pub fn canonical_hash(&self) -> u64 {
    crate::engine::hash64(&(layout_text(&self.layout), &self.steps))
  }
}

#[derive(Clone, Copy, Debug)]
pub struct HistOpts {
  pub max_events: usize,
  pub max_held: usize,
  pub raw_percent: u32,
  pub release_all_percent: u32,
  pub marathon_taps: usize, // > 0: one long typing run of up to that many chord taps
}

// `Press` picks the i-th not-held key, `Release` the i-th held key, `Raw` any key in any
// direction (duplicate presses, releases of keys never pressed).
pub fn gen_history(src: &mut Src, alphabet: &[KeyCode], o: &HistOpts) -> Vec<Step> {
  gen_history_crowd(src, alphabet, o, &[])
}

// `crowd` keys are pressed first and count on top of the bound on held keys
pub fn gen_history_crowd(src: &mut Src, alphabet: &[KeyCode], o: &HistOpts, crowd: &[KeyCode]) -> Vec<Step> {
  let n = src.below(o.max_events + 1);
  let mut held: Vec<KeyCode> = Vec::new();
  let mut out = Vec::with_capacity(n + 6 + crowd.len());
  for k in crowd {
    held.push(*k);
    out.push(Step::Ev(Event::Pressed(*k)));
  }
  let max_held = o.max_held.max(1) + crowd.len();
  let w_press = 50u32;
  let w_release = 100 - w_press - o.raw_percent - o.release_all_percent;
  for _ in 0..n {
    let kind = src.weighted(&[w_press, w_release, o.raw_percent, o.release_all_percent]);
    let idx = src.u32();
    let not_held: Vec<KeyCode> = alphabet.iter().cloned().filter(|k| !held.contains(k)).collect();
    let pick = |v: &Vec<KeyCode>| v[((idx as u64 * v.len() as u64) >> 32) as usize];
    let mut do_press = |held: &mut Vec<KeyCode>, out: &mut Vec<Step>| {
      let k = pick(&not_held);
      held.push(k);
      out.push(Step::Ev(Event::Pressed(k)));
    };
    match kind {
      0 => {
        if held.len() < max_held && !not_held.is_empty() {
          do_press(&mut held, &mut out);
        } else if !held.is_empty() {
          let k = pick(&held);
          held.retain(|x| *x != k);
          out.push(Step::Ev(Event::Released(k)));
        }
      }
      1 => {
        if !held.is_empty() {
          let k = pick(&held);
          held.retain(|x| *x != k);
          out.push(Step::Ev(Event::Released(k)));
        } else if !not_held.is_empty() {
          do_press(&mut held, &mut out);
        }
      }
      2 => {
        let all: Vec<KeyCode> = alphabet.to_vec();
        let k = pick(&all);
        if idx & 1 == 0 {
          // duplicate press allowed; a raw press of a new key still respects the bound on held keys
          if held.contains(&k) || held.len() < max_held {
            if !held.contains(&k) {
              held.push(k);
            }
            out.push(Step::Ev(Event::Pressed(k)));
          }
        } else {
          held.retain(|x| *x != k);
          out.push(Step::Ev(Event::Released(k)));
        }
      }
      _ => {
        held.clear();
        out.push(Step::ReleaseAll);
      }
    }
  }
  // optional suffix: release everything in a generated order
  if src.chance(60) {
    let mut order = held.clone();
    src.shuffle(&mut order);
    for k in order {
      out.push(Step::Ev(Event::Released(k)));
    }
  }
  out
}

// "Typing": a history made of taps of the layout's own chords - press the trigger keys of a
// mapping in order, release them (final key first, final key only, or in a drawn order),
// sometimes keeping modifiers held across taps (rolled chords), sometimes tapping a plain key.
// Long runs of chord taps reach states that uniformly random events practically never reach
// (e.g. many distinct absorbed keys in a row).
pub fn gen_typing(src: &mut Src, layout: &Layout, alphabet: &[KeyCode], max_taps: usize, crowd: &[KeyCode]) -> Vec<Step> {
  let mut out: Vec<Step> = Vec::new();
  let mut held: Vec<KeyCode> = Vec::new();
  for k in crowd {
    held.push(*k);
    out.push(Step::Ev(Event::Pressed(*k)));
  }
  let base = held.len();
  // wide layouts get long runs that stay on one final key: that is what accumulates per-key
  // memory (many distinct absorbed keys, long candidate lists)
  let wide = layout.mappings.len() >= 9;
  let taps = src.below(if wide { max_taps.max(40) } else { max_taps } + 1);
  let mut last_outputs: Option<Vec<KeyCode>> = None;
  let mut sticky_final: Option<KeyCode> = if wide && src.chance(60) { Some(*src.pick(&layout.mappings).from.last().unwrap()) } else { None };
  for _ in 0..taps {
    let outs_in_alphabet = last_outputs.as_ref().map(|o| o.iter().any(|k| alphabet.contains(k))).unwrap_or(false);
    if layout.mappings.is_empty() || src.chance(if outs_in_alphabet { 25 } else if wide { 5 } else { 15 }) {
      // a plain key: from the alphabet, or a key that the mapping tapped last outputs (users
      // do press keys that mappings also produce)
      // (only keys of the alphabet: a key outside it may be a distinguished output key, which by
      // definition is never pressed physically)
      let outs: Vec<KeyCode> = last_outputs.clone().unwrap_or_default().into_iter().filter(|k| alphabet.contains(k)).collect();
      let k = if !outs.is_empty() && src.chance(60) { src.pick(&outs) } else { src.pick(alphabet) };
      if !held.contains(&k) {
        out.push(Step::Ev(Event::Pressed(k)));
        out.push(Step::Ev(Event::Released(k)));
      } else {
        held.retain(|x| *x != k);
        out.push(Step::Ev(Event::Released(k)));
      }
      continue;
    }
    if src.chance(if wide { 3 } else { 10 }) {
      sticky_final = if sticky_final.is_some() { None } else { Some(*src.pick(&layout.mappings).from.last().unwrap()) };
    }
    let cands: Vec<&crate::keys::Mapping> = match sticky_final {
      Some(f) => layout.mappings.iter().filter(|m| *m.from.last().unwrap() == f).collect(),
      None => layout.mappings.iter().collect(),
    };
    // (in very large layouts the far end of the list gets its share of taps)
    let m = if cands.len() > 1000 && src.chance(50) {
      if src.chance(50) {
        cands[cands.len() - 1 - src.below(600.min(cands.len()))]
      } else {
        // extremes of the key order (tables sorted by key put them first / last)
        let hi = cands.iter().map(|m| *m.from.last().unwrap()).max().unwrap();
        let lo = cands.iter().map(|m| *m.from.last().unwrap()).min().unwrap();
        let want = if src.chance(70) { hi } else { lo };
        let ext: Vec<&&crate::keys::Mapping> = cands.iter().filter(|m| *m.from.last().unwrap() == want).collect();
        if src.chance(50) { *ext[ext.len() - 1 - src.below(ext.len().min(8))] } else { *ext[src.below(ext.len())] }
      }
    } else {
      cands[src.below(cands.len())]
    };
    let fk = *m.from.last().unwrap();
    last_outputs = Some(m.to.clone());
    if held.contains(&fk) {
      held.retain(|x| *x != fk);
      out.push(Step::Ev(Event::Released(fk)));
    }
    for t in &m.from {
      if !held.contains(t) {
        held.push(*t);
        out.push(Step::Ev(Event::Pressed(*t)));
      }
    }
    match src.weighted(&[50, 25, 25]) {
      0 => {
        for t in m.from.iter().rev() {
          if held.contains(t) {
            held.retain(|x| x != t);
            out.push(Step::Ev(Event::Released(*t)));
          }
        }
      }
      1 => {
        held.retain(|x| *x != fk);
        out.push(Step::Ev(Event::Released(fk)));
      }
      _ => {
        let mut order: Vec<KeyCode> = m.from.clone();
        src.shuffle(&mut order);
        for t in order {
          if held.contains(&t) && src.chance(80) {
            held.retain(|x| *x != t);
            out.push(Step::Ev(Event::Released(t)));
          }
        }
      }
    }
    if held.len() > base + 6 {
      let extra: Vec<KeyCode> = held[base..].to_vec();
      for k in extra {
        held.retain(|x| *x != k);
        out.push(Step::Ev(Event::Released(k)));
      }
    }
  }
  if src.chance(60) {
    let mut order = held.clone();
    src.shuffle(&mut order);
    for k in order {
      out.push(Step::Ev(Event::Released(k)));
    }
  }
  out
}

// random events (70 %) or typing (30 %)
pub fn gen_history_mixed(src: &mut Src, layout: &Layout, alphabet: &[KeyCode], o: &HistOpts, crowd: &[KeyCode]) -> Vec<Step> {
  if o.marathon_taps > 0 {
    return gen_typing(src, layout, alphabet, o.marathon_taps, crowd);
  }
  if src.chance(30) {
    gen_typing(src, layout, alphabet, (o.max_events / 3).max(4), crowd)
  } else {
    gen_history_crowd(src, alphabet, o, crowd)
  }
}
