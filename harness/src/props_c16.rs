// C16: only real, non-excluded keyboards are selected, whichever way they are named.
// Text level: context independence (metamorphic), two-extractor differential, ground truth by
// construction for unambiguous archetypes. End to end: a worker process enters a private
// mount namespace, fabricates /proc/bus/input/devices, /sys and /dev, and calls the real
// list_keyboards / flag_excluded / filter_devices_verbose (hooks H2, H3); a sample of the same
// cases drives the real `totalmapper remap --verbose` binary in the namespace.

use crate::engine::*;
use crate::evidence::*;
use crate::findings::Findings;
use crate::tape::Src;
use serde_json::{json, Value};
use std::collections::{BTreeMap, BTreeSet};

// ---- device entries ---------------------------------------------------------------------------

#[derive(Clone, Debug, PartialEq)]
pub struct Entry {
  pub arch: String,
  pub name: Option<String>,
  pub sysfs: Option<String>,
  pub ev: Option<String>,
  pub key: Option<String>,
  pub extra: Vec<String>,     // other lines (P:, U:, H:, B: PROP= ...), in kernel order around the above
  pub event_no: Option<u32>,  // eventN under the sysfs dir (None: the device has no event node)
  pub devname_line: bool,     // uevent carries DEVNAME=
  pub truth: Option<bool>,    // ground truth "keyboard-like" where the archetype is unambiguous
}

fn mask_words(bits: &[u32]) -> String {
  let mut words = vec![0u64; 12];
  for b in bits {
    words[(*b / 64) as usize] |= 1u64 << (*b % 64);
  }
  let top = words.iter().rposition(|w| *w != 0).unwrap_or(0);
  (0..=top).rev().map(|i| format!("{:x}", words[i])).collect::<Vec<_>>().join(" ")
}

impl Entry {
  pub fn render(&self) -> String {
    let mut s = String::new();
    // (a marker such as "P:" stands for the default line, "P: Phys=..." is written as it is)
    let given = |prefix: &str| self.extra.iter().find(|l| l.starts_with(prefix) && l.len() > prefix.len()).cloned();
    match given("I:") {
      Some(l) => {
        s.push_str(&l);
        s.push('\n');
      }
      None => s.push_str("I: Bus=0003 Vendor=046d Product=c31c Version=0110\n"),
    }
    if let Some(n) = &self.name {
      s.push_str(&format!("N: Name=\"{}\"\n", n));
    }
    if self.extra.iter().any(|l| l.starts_with("P:")) {
      match given("P:") {
        Some(l) => {
          s.push_str(&l);
          s.push('\n');
        }
        None => s.push_str("P: Phys=usb-0000:00:14.0-1/input0\n"),
      }
    }
    if let Some(p) = &self.sysfs {
      s.push_str(&format!("S: Sysfs={}\n", p));
    }
    if self.extra.iter().any(|l| l.starts_with("U:")) {
      match given("U:") {
        Some(l) => {
          s.push_str(&l);
          s.push('\n');
        }
        None => s.push_str("U: Uniq=\n"),
      }
    }
    if self.extra.iter().any(|l| l.starts_with("H:")) {
      s.push_str(&format!("H: Handlers=sysrq kbd event{} leds \n", self.event_no.unwrap_or(0)));
    }
    if self.extra.iter().any(|l| l.starts_with("B: PROP")) {
      s.push_str("B: PROP=0\n");
    }
    if let Some(e) = &self.ev {
      s.push_str(&format!("B: EV={}\n", e));
    }
    if let Some(k) = &self.key {
      s.push_str(&format!("B: KEY={}\n", k));
    }
    for l in &self.extra {
      if l.starts_with("B: ") && !l.starts_with("B: PROP") {
        s.push_str(l);
        s.push('\n');
      }
    }
    s.push('\n');
    s
  }
  pub fn to_json(&self) -> Value {
    json!({"arch": self.arch, "name": self.name, "sysfs": self.sysfs, "ev": self.ev, "key": self.key, "extra": self.extra, "event_no": self.event_no, "devname_line": self.devname_line, "truth": self.truth})
  }
  pub fn from_json(v: &Value) -> Option<Entry> {
    Some(Entry {
      arch: v.get("arch")?.as_str()?.to_string(),
      name: v.get("name").and_then(|x| x.as_str()).map(|s| s.to_string()),
      sysfs: v.get("sysfs").and_then(|x| x.as_str()).map(|s| s.to_string()),
      ev: v.get("ev").and_then(|x| x.as_str()).map(|s| s.to_string()),
      key: v.get("key").and_then(|x| x.as_str()).map(|s| s.to_string()),
      extra: v.get("extra").and_then(|x| x.as_array()).map(|a| a.iter().filter_map(|x| x.as_str().map(|s| s.to_string())).collect()).unwrap_or_default(),
      event_no: v.get("event_no").and_then(|x| x.as_u64()).map(|x| x as u32),
      devname_line: v.get("devname_line").and_then(|x| x.as_bool()).unwrap_or(true),
      truth: v.get("truth").and_then(|x| x.as_bool()),
    })
  }
}

fn full_keyboard_bits() -> Vec<u32> {
  let mut b: Vec<u32> = (1..=88).collect();
  b.extend(96..=111);
  b.extend([113, 114, 115, 119, 125, 126, 127]);
  b
}

const KB_NAMES: &[&str] = &["AT Translated Set 2 keyboard", "Logitech USB Keyboard", "Dell KB216 Wired Keyboard", "Keychron K2", "HID 046a:0011", "ThinkPad Extra Buttons Board", "Das \"Ultimate\" 4", "Tastatur \u{e4}\u{f6}\u{fc}", "kbd*[x]?", "SONiX USB DEVICE ", "Apple Inc. Magic Keyboard", "ErgoDox EZ"];
const MOUSE_NAMES: &[&str] = &["Logitech Gaming Mouse G502", "Razer DeathAdder Mouse", "PS/2 Generic Mouse", "USB Optical Mouse", "SteelSeries Rival Mouse 3"];

fn vary_name(src: &mut Src, name: &str) -> String {
  match src.below(8) {
    0 => name.to_lowercase(),
    1 => name.to_uppercase(),
    2 => {
      // one word in the other case
      let words: Vec<&str> = name.split(' ').collect();
      let j = src.below(words.len().max(1));
      words.iter().enumerate().map(|(i, w)| if i == j { if w.chars().any(|c| c.is_uppercase()) { w.to_lowercase() } else { w.to_uppercase() } } else { w.to_string() }).collect::<Vec<_>>().join(" ")
    }
    3 => {
      // first letter of every word in the other case
      name.split(' ').map(|w| { let mut cs = w.chars(); match cs.next() { Some(c) => { let f: String = if c.is_uppercase() { c.to_lowercase().collect() } else { c.to_uppercase().collect() }; format!("{}{}", f, cs.as_str()) } None => String::new() } }).collect::<Vec<_>>().join(" ")
    }
    4 => { let mut cs: Vec<char> = name.chars().collect(); if !cs.is_empty() { let j = src.below(cs.len()); cs.remove(j); } cs.into_iter().collect() }
    5 => format!("{}{}", src.pick(&["x", "2.4G wireless ", "USB-", "my"]), name),
    6 => format!("{}{}", name, src.pick(&["s", " mouse", " Mouse", " KEYBOARD", "pad", " cros_ec"])),
    _ => src.pick(&["2.4G wireless mouse", "MOUSE", "mouse", "Keyboard", "KEYBOARD", "KeyBoard mouse", "Cros_ec", "cros_ec keyboard", "CROS_EC", "optical mOUSE"]).to_string(),
  }
}

fn gen_entry(src: &mut Src, idx: usize) -> Entry {
  // numbers with different leading digits (a prefix test that is too long must not hide)
  const INPUT_NOS: [u32; 14] = [2, 37, 4, 58, 6, 71, 8, 93, 10, 115, 21, 206, 49, 300];
  let input_no = INPUT_NOS[idx % INPUT_NOS.len()] + 1000 * (idx / INPUT_NOS.len()) as u32;
  let event_no = [3u32, 14, 5, 26, 7, 38, 9, 41, 10, 52, 11, 63, 12, 74][idx % 14] + 100 * (idx / 14) as u32;
  let phys_sysfs = match src.below(4) {
    // (paths that cannot coincide with those of the captured real entries)
    0 => format!("/devices/platform/i8042/serio{}/input/input{}", idx + 10, input_no),
    1 => format!("/devices/pci0000:00/0000:00:14.0/usb1/1-{}/1-{}:1.0/0003:046D:C31C.{:04}/input/input{}", idx + 1, idx + 1, idx + 9001, input_no),
    2 => format!("/devices/LNXSYSTM:00/LNXSYBUS:00/PNP0C0E:{:02}/input/input{}", idx, input_no),
    _ => format!("/devices/virtualish/input/input{}", input_no), // not the virtual tree: only the exact prefix counts
  };
  let virt_sysfs = format!("/devices/virtual/input/input{}", input_no);
  let extras_all = vec!["P:".to_string(), "U:".to_string(), "H:".to_string(), "B: PROP".to_string(), "B: MSC=10".to_string(), "B: LED=7".to_string()];
  let arch = src.weighted(&[28, 7, 9, 11, 5, 5, 5, 11, 9, 10]);
  let mut e = match arch {
    0 => Entry { arch: "keyboard".into(), name: Some(src.pick(KB_NAMES).to_string()), sysfs: Some(phys_sysfs), ev: Some("120013".into()), key: Some(mask_words(&full_keyboard_bits())), extra: extras_all.clone(), event_no: Some(event_no), devname_line: true, truth: Some(true) },
    1 => {
      // keypad: 17 keys
      let bits: Vec<u32> = vec![69, 71, 72, 73, 74, 75, 76, 77, 78, 79, 80, 81, 82, 83, 96, 98, 55];
      Entry { arch: "keypad".into(), name: Some("USB Numeric Keypad".into()), sysfs: Some(phys_sysfs), ev: Some("120013".into()), key: Some(mask_words(&bits)), extra: extras_all.clone(), event_no: Some(event_no), devname_line: true, truth: Some(false) }
    }
    2 => Entry { arch: "mouse".into(), name: Some(src.pick(MOUSE_NAMES).to_string()), sysfs: Some(phys_sysfs), ev: Some("17".into()), key: Some(mask_words(&[272, 273, 274, 275, 276])), extra: vec!["P:".into(), "H:".into(), "B: REL=903".into()], event_no: Some(event_no), devname_line: true, truth: Some(false) },
    3 => {
      // gaming mouse with a full key map: "Mouse" in the name, no LEDs, sometimes SCROLLDOWN
      let mut bits = full_keyboard_bits();
      if src.chance(50) {
        bits.push(178);
      }
      bits.extend([272, 273, 274]);
      Entry { arch: "gaming-mouse".into(), name: Some(src.pick(MOUSE_NAMES).to_string()), sysfs: Some(phys_sysfs), ev: Some(src.pick(&["17", "1f", "100017"]).to_string()), key: Some(mask_words(&bits)), extra: vec!["P:".into(), "H:".into(), "B: REL=1943".into(), "B: MSC=10".into()], event_no: Some(event_no), devname_line: true, truth: Some(false) }
    }
    4 => Entry { arch: "power-button".into(), name: Some(src.pick(&["Power Button", "Sleep Button", "Video Bus"]).to_string()), sysfs: Some(phys_sysfs), ev: Some("3".into()), key: Some(src.pick(&["10000000000000 0", "4000 0 0", "3e000b00000000 0 0 0"]).to_string()), extra: vec!["P:".into(), "H:".into()], event_no: Some(event_no), devname_line: true, truth: Some(false) },
    5 => Entry { arch: "switch".into(), name: Some(src.pick(&["Lid Switch", "Tablet Mode Switch"]).to_string()), sysfs: Some(phys_sysfs), ev: Some("21".into()), key: None, extra: vec!["P:".into(), "H:".into(), "B: SW=1".into()], event_no: Some(event_no), devname_line: true, truth: Some(false) },
    6 => Entry { arch: "cros_ec".into(), name: Some("cros_ec".into()), sysfs: Some(phys_sysfs), ev: Some("100013".into()), key: Some(mask_words(&full_keyboard_bits())), extra: extras_all.clone(), event_no: Some(event_no), devname_line: true, truth: Some(false) },
    7 => Entry { arch: "virtual-keyboard".into(), name: Some(src.pick(&["totalmapper", "ydotoold virtual device", "py-evdev-uinput"]).to_string()), sysfs: Some(virt_sysfs), ev: Some(src.pick(&["120013", "13"]).to_string()), key: Some(mask_words(&(1..562).collect::<Vec<u32>>())), extra: vec!["P:".into(), "H:".into()], event_no: Some(event_no), devname_line: true, truth: None },
    9 => {
      // boundary device: key count around the heuristic's threshold of 20, 2-4 of the "normal"
      // keys, keys at bit 63 of a mask word (F5 = 63, COMPOSE = 127, F21 = 191, ...), with and
      // without LEDs / "Mouse" / "keyboard" in the name
      let normal_all: [u32; 10] = [30, 48, 46, 57, 42, 54, 14, 28, 1, 119];
      let n_normal = src.range(2, 4);
      let mut bits: Vec<u32> = src.distinct(&normal_all, n_normal);
      let n_top = src.below(4);
      for t in src.distinct(&[63u32, 127, 191, 255, 319, 383], n_top) {
        bits.push(t);
      }
      let target = src.range(17, 24);
      let filler: Vec<u32> = (2..=13).chain(16..=27).chain(59..=62).chain(64..=68).chain(103..=111).collect();
      let mut fi = src.below(filler.len());
      while bits.len() < target {
        let b = filler[fi % filler.len()];
        fi += 1;
        if !bits.contains(&b) {
          bits.push(b);
        }
      }
      if src.chance(25) {
        bits.push(178);
      }
      Entry { arch: "boundary".into(), name: Some(src.pick(&["USB Presenter", "Wireless Presenter Mouse", "Mini Keyboard", "Macro Pad", "HID 1234:5678 Mouse keyboard"]).to_string()), sysfs: Some(phys_sysfs), ev: Some(src.pick(&["120013", "13", "17", "100013"]).to_string()), key: Some(mask_words(&bits)), extra: vec!["P:".into(), "H:".into(), "B: MSC=10".into()], event_no: Some(event_no), devname_line: true, truth: None }
    }
    _ => {
      // bit soup
      let nb = src.range(0, 90);
      let bits: Vec<u32> = (0..nb).map(|_| src.below(600) as u32).collect();
      let evb: Vec<u32> = (0..src.below(6)).map(|_| src.below(24) as u32).collect();
      Entry { arch: "bit-soup".into(), name: Some(src.pick(&["Mouse", "keyboard", "KEYBOARD Mouse", "", "x", "cros_ec ", "Gaming Mouse Keyboard"]).to_string()), sysfs: Some(if src.chance(20) { virt_sysfs } else { phys_sysfs }), ev: Some(mask_words(&evb)), key: Some(if src.chance(10) { "zz 12".to_string() } else { mask_words(&bits) }), extra: vec!["H:".into()], event_no: Some(event_no), devname_line: true, truth: None }
    }
  };
  // spelling variants of the name: the words the code looks for ("Mouse", "keyboard", "cros_ec")
  // in another case, cut short, doubled or glued to other text - what one extractor treats
  // specially the other must treat the same way
  if src.chance(22) {
    if let Some(n) = e.name.clone() {
      let v = vary_name(src, &n);
      if v != n {
        e.name = Some(v);
        // the ground truth of an archetype was stated for its own name: a keyboard that lost its
        // EV line is only a keyboard as long as its name does not say "Mouse"
        if e.truth == Some(true) || e.arch == "gaming-mouse" || e.arch == "cros_ec" {
          e.truth = None;
        }
      }
    }
  }
  // fields other than I: dropped at random
  if src.chance(18) {
    match src.below(5) {
      0 => {
        e.name = None;
        if e.arch == "gaming-mouse" || e.arch == "cros_ec" {
          e.truth = None;
        }
      }
      1 => e.sysfs = None,
      2 => e.ev = None,
      3 => {
        e.key = None;
        if e.truth == Some(true) {
          e.truth = Some(false);
        }
      }
      _ => e.extra.clear(),
    }
  }
  if src.chance(6) {
    e.event_no = None;
  } else if src.chance(4) {
    e.devname_line = false;
  }
  e
}

fn real_entries() -> Vec<String> {
  let path = format!("{}/src/example_hardware.rs", env!("TM_REPO_DIR"));
  let text = std::fs::read_to_string(path).unwrap_or_default();
  let start = match text.find("r#\"") {
    Some(p) => p + 3,
    None => return vec![],
  };
  let end = text[start..].find("\"#").map(|p| start + p).unwrap_or(text.len());
  text[start..end].split("\n\n").map(|s| s.trim_matches('\n').to_string()).filter(|s| s.starts_with("I:")).map(|s| format!("{}\n\n", s)).collect()
}

#[derive(Clone, Debug)]
pub struct TextCase {
  pub entries: Vec<Entry>,
  pub real: Vec<(usize, String)>, // (position, text) of captured real entries mixed in
}

impl TextCase {
  pub fn pieces(&self) -> Vec<String> {
    let mut out: Vec<String> = self.entries.iter().map(|e| e.render()).collect();
    for (pos, t) in &self.real {
      let p = (*pos).min(out.len());
      out.insert(p, t.clone());
    }
    out
  }
  pub fn to_json(&self) -> Value {
    json!({"entries": self.entries.iter().map(|e| e.to_json()).collect::<Vec<_>>(), "real": self.real.iter().map(|(p, t)| json!([p, t])).collect::<Vec<_>>(), "text": self.pieces().concat()})
  }
  pub fn from_json(v: &Value) -> Option<TextCase> {
    let entries = v.get("entries")?.as_array()?.iter().filter_map(Entry::from_json).collect();
    let real = v.get("real").and_then(|x| x.as_array()).map(|a| a.iter().filter_map(|x| { let p = x.as_array()?; Some((p[0].as_u64()? as usize, p[1].as_str()?.to_string())) }).collect()).unwrap_or_default();
    Some(TextCase { entries, real })
  }
}

// The fields that play no part in the classification (I:, P:, U:) take values from small
// per-case pools, so that neighbouring entries often carry the same bus address, the same
// serial number or the same vendor / product: interfaces of one physical device. Whether an
// entry counts as a keyboard must not depend on what it shares with a neighbour.
fn share_fields(src: &mut Src, entries: &mut Vec<Entry>) {
  if !src.chance(60) {
    return;
  }
  const IDS: [&str; 6] = ["I: Bus=0003 Vendor=046d Product=c31c Version=0110", "I: Bus=0003 Vendor=1532 Product=0043 Version=0111", "I: Bus=0011 Vendor=0001 Product=0001 Version=ab41", "I: Bus=0005 Vendor=05ac Product=0255 Version=0001", "I: Bus=0019 Vendor=0000 Product=0001 Version=0000", "I: Bus=0003 Vendor=04d9 Product=a09f Version=0111"];
  const PHYS: [&str; 6] = ["P: Phys=usb-0000:00:14.0-1/input0", "P: Phys=usb-0000:00:14.0-1/input1", "P: Phys=usb-0000:00:14.0-2/input0", "P: Phys=isa0060/serio0/input0", "P: Phys=a4:5e:60:e1:22:01", "P: Phys="];
  const UNIQ: [&str; 5] = ["U: Uniq=a4:5e:60:e1:22:01", "U: Uniq=0123456789AB", "U: Uniq=KB-0001", "U: Uniq=", "U: Uniq=205A33784B31"];
  let ids = src.distinct(&IDS, 2);
  let phys = src.distinct(&PHYS, 2);
  let uniq = src.distinct(&UNIQ, 2);
  for e in entries.iter_mut() {
    let mut set = |prefix: &str, line: &str, always: bool| {
      let has = e.extra.iter().any(|l| l.starts_with(prefix));
      if has || always {
        e.extra.retain(|l| !l.starts_with(prefix));
        e.extra.push(line.to_string());
      }
    };
    if src.chance(70) {
      set("I:", src.pick(&ids), true);
    }
    if src.chance(70) {
      set("P:", src.pick(&phys), false);
    }
    if src.chance(70) {
      set("U:", src.pick(&uniq), src.chance(50));
    }
  }
}

fn gen_text_case(src: &mut Src, real: &[String]) -> TextCase {
  let n = src.range(1, 10);
  let mut entries: Vec<Entry> = (0..n).map(|i| gen_entry(src, i)).collect();
  share_fields(src, &mut entries);
  src.shuffle(&mut entries);
  let mut r = Vec::new();
  if !real.is_empty() && src.chance(35) {
    let k = src.range(1, 3);
    let picks = src.distinct(&(0..real.len()).collect::<Vec<_>>(), k);
    for p in picks {
      r.push((src.below(n + 1), real[p].clone()));
    }
  }
  TextCase { entries, real: r }
}

// ---- text-level oracles -----------------------------------------------------------------------

type KbOut = Vec<(String, String)>;
type DevOut = Vec<(String, String, bool)>;

pub fn check_text_case(c: &TextCase) -> Result<(bool, bool), Violation> {
  use crate::keyboard_listing::verif::{extract_input_devices, extract_keyboards};
  let pieces = c.pieces();
  let whole: String = pieces.concat();
  let kb_whole: KbOut = extract_keyboards(&whole);
  let dev_whole: DevOut = extract_input_devices(&whole);
  // (1) context independence: the result for the list is the concatenation of the results for
  // each entry alone
  let mut kb_cat: KbOut = Vec::new();
  let mut dev_cat: DevOut = Vec::new();
  for p in &pieces {
    kb_cat.extend(extract_keyboards(p));
    dev_cat.extend(extract_input_devices(p));
  }
  // (no order is promised: compared as multisets)
  let sorted_kb = |v: &KbOut| { let mut v = v.clone(); v.sort(); v };
  let sorted_dev = |v: &DevOut| { let mut v = v.clone(); v.sort(); v };
  let kb_whole = sorted_kb(&kb_whole);
  let kb_cat = sorted_kb(&kb_cat);
  let dev_whole = sorted_dev(&dev_whole);
  let dev_cat = sorted_dev(&dev_cat);
  if kb_whole != kb_cat {
    return Err(Violation::new("classification-depends-on-neighbours", format!("--all-keyboards extractor: the list yields {:?} but its entries one by one yield {:?}", kb_whole, kb_cat)));
  }
  if dev_whole != dev_cat {
    return Err(Violation::new("classification-depends-on-neighbours", format!("--dev-file extractor: the list yields {:?} but its entries one by one yield {:?}", dev_whole, dev_cat)));
  }
  // (2) the two extractors agree
  let dev_kbs: KbOut = sorted_kb(&dev_whole.iter().filter(|d| d.2).map(|d| (d.0.clone(), d.1.clone())).collect());
  if dev_kbs != kb_whole {
    return Err(Violation::new("extractors-disagree", format!("--all-keyboards finds {:?}, --dev-file --only-if-keyboard would accept {:?}", kb_whole, dev_kbs)));
  }
  // (3) ground truth for unambiguous archetypes
  let mut missing_field = false;
  for e in &c.entries {
    if e.name.is_none() || e.sysfs.is_none() || e.ev.is_none() || e.key.is_none() {
      missing_field = true;
    }
    if let (Some(truth), Some(sysfs)) = (e.truth, &e.sysfs) {
      let got = kb_whole.iter().any(|(s, _)| s == sysfs);
      if got != truth {
        return Err(Violation::new("wrong-classification", format!("{} entry {:?} ({}) is {}classified as a keyboard", e.arch, e.name, sysfs, if got { "" } else { "not " })));
      }
      if let Some(n) = &e.name {
        if let Some((_, name, _)) = dev_whole.iter().find(|(s, _, _)| s == sysfs) {
          // the name is what stands between the quotes, trailing blanks included
          if name != n {
            return Err(Violation::new("wrong-name", format!("entry named {:?} is listed as {:?}", n, name)));
          }
        }
      }
    }
  }
  // the captured real list: exactly one keyboard
  for (_, t) in &c.real {
    let is_at = t.contains("AT Translated Set 2 keyboard");
    let got = !extract_keyboards(t).is_empty();
    if got != is_at {
      return Err(Violation::new("wrong-classification", format!("captured entry {:?} is {}classified as a keyboard", t.lines().nth(1).unwrap_or(""), if got { "" } else { "not " })));
    }
  }
  let has_kb = !kb_whole.is_empty();
  Ok((has_kb, missing_field))
}

// reference glob: `*` any sequence, `?` any one character, everything else literal
pub fn ref_glob(pattern: &str, text: &str) -> bool {
  let p: Vec<char> = pattern.chars().collect();
  let t: Vec<char> = text.chars().collect();
  let mut dp = vec![vec![false; t.len() + 1]; p.len() + 1];
  dp[0][0] = true;
  for i in 1..=p.len() {
    if p[i - 1] == '*' {
      dp[i][0] = dp[i - 1][0];
    }
    for j in 1..=t.len() {
      dp[i][j] = match p[i - 1] {
        '*' => dp[i - 1][j] || dp[i][j - 1],
        '?' => dp[i - 1][j - 1],
        c => dp[i - 1][j - 1] && c == t[j - 1],
      };
    }
  }
  dp[p.len()][t.len()]
}

// ---- end-to-end cases -------------------------------------------------------------------------

#[derive(Clone, Debug)]
pub struct E2ECase {
  pub text: TextCase,
  pub excludes: Vec<String>,
  pub extra_args: Vec<String>, // additional --dev-file arguments (other spellings, unknown paths)
  pub use_binary: bool,
}

impl E2ECase {
  pub fn to_json(&self) -> Value {
    json!({"text": self.text.to_json(), "excludes": self.excludes, "extra_args": self.extra_args, "use_binary": self.use_binary})
  }
  pub fn from_json(v: &Value) -> Option<E2ECase> {
    Some(E2ECase {
      text: TextCase::from_json(v.get("text")?)?,
      excludes: v.get("excludes")?.as_array()?.iter().filter_map(|x| x.as_str().map(|s| s.to_string())).collect(),
      extra_args: v.get("extra_args").and_then(|x| x.as_array()).map(|a| a.iter().filter_map(|x| x.as_str().map(|s| s.to_string())).collect()).unwrap_or_default(),
      use_binary: v.get("use_binary").and_then(|x| x.as_bool()).unwrap_or(false),
    })
  }
}

fn gen_excludes(src: &mut Src, names: &[String]) -> Vec<String> {
  let n = src.weighted(&[30, 40, 20, 10]);
  let mut out = Vec::new();
  for _ in 0..n {
    let base = if !names.is_empty() && src.chance(70) { names[src.below(names.len())].clone() } else { src.pick(&["*Mouse*", "*keyboard*", "*", "?", "*Keyboard", "Logitech*", "AT*", "nothing", "*[x]?", "* *", ""]).to_string() };
    let chars: Vec<char> = base.chars().collect();
    let p = match src.below(7) {
      0 => base.clone(),
      1 => {
        // replace a run by *
        if chars.len() >= 2 {
          let a = src.below(chars.len());
          let b = a + src.below(chars.len() - a);
          format!("{}*{}", chars[..a].iter().collect::<String>(), chars[b..].iter().collect::<String>())
        } else {
          "*".into()
        }
      }
      2 => {
        if !chars.is_empty() {
          let a = src.below(chars.len());
          let mut c = chars.clone();
          c[a] = '?';
          c.into_iter().collect()
        } else {
          "?".into()
        }
      }
      3 => format!("*{}*", chars.iter().skip(chars.len() / 3).take(chars.len() / 3 + 1).collect::<String>()),
      4 => format!("{}?", base),
      5 => base.to_lowercase(),
      _ => format!("{}*", chars.iter().take(chars.len() / 2).collect::<String>()),
    };
    if !p.is_empty() {
      out.push(p);
    }
  }
  out
}

fn gen_e2e_case(src: &mut Src, real: &[String], allow_binary: bool) -> E2ECase {
  let mut text = gen_text_case(src, real);
  // real captured entries have no fabricated sysfs tree: keep them out of end-to-end runs
  text.real.clear();
  let names: Vec<String> = text.entries.iter().filter_map(|e| e.name.clone()).collect();
  let excludes = gen_excludes(src, &names);
  let mut extra_args = Vec::new();
  for e in &text.entries {
    if let Some(n) = e.event_no {
      if src.chance(25) {
        extra_args.push(match src.below(4) {
          0 => format!("/dev/input/by-id/usb-dev{}-event-kbd", n),
          1 => format!("/dev//input/event{}", n),
          2 => format!("/dev/input/../input/event{}", n),
          _ => format!("/dev/input/by-path/platform-dev{}-event", n),
        });
      }
    }
  }
  if src.chance(20) {
    extra_args.push(src.pick(&["/dev/input/event999", "/dev/null-not-there", "/dev/input/unlisted"]).to_string());
  }
  let use_binary = allow_binary && src.chance(100);
  E2ECase { text, excludes, extra_args, use_binary }
}

// What must be selected, derived from the case and the code's own per-entry classification.
pub struct Expected {
  pub all_keyboards: BTreeMap<String, bool>, // dev path -> excluded flag, for every device --all-keyboards lists
  pub selected: BTreeSet<String>,            // canonical dev paths that must be remapped
  pub selected_in_order: Vec<String>,        // the same in the order of the device list
}

fn expected_for(c: &E2ECase) -> Expected {
  use crate::keyboard_listing::verif::extract_input_devices;
  let mut all_keyboards = BTreeMap::new();
  let mut selected = BTreeSet::new();
  let mut selected_in_order = Vec::new();
  for e in &c.text.entries {
    let alone = extract_input_devices(&e.render());
    let (sysfs, name, is_kb) = match alone.first() {
      Some(x) => x.clone(),
      None => continue,
    };
    if sysfs.starts_with("/devices/virtual/input/") {
      continue;
    }
    let ev = match (e.event_no, e.devname_line) {
      (Some(n), true) => n,
      _ => continue,
    };
    if !is_kb {
      continue;
    }
    let path = format!("/dev/input/event{}", ev);
    let excluded = c.excludes.iter().any(|p| ref_glob(p, &name));
    all_keyboards.insert(path.clone(), excluded);
    if !excluded {
      selected.insert(path.clone());
      selected_in_order.push(path);
    }
  }
  Expected { all_keyboards, selected, selected_in_order }
}

// ---- the namespace worker ---------------------------------------------------------------------

fn mount(src: &str, target: &str, fstype: Option<&str>, flags: libc::c_ulong) -> Result<(), String> {
  let s = std::ffi::CString::new(src).unwrap();
  let t = std::ffi::CString::new(target).unwrap();
  let f = fstype.map(|f| std::ffi::CString::new(f).unwrap());
  let rc = unsafe { libc::mount(s.as_ptr(), t.as_ptr(), f.as_ref().map(|f| f.as_ptr()).unwrap_or(std::ptr::null()), flags, std::ptr::null()) };
  if rc != 0 {
    return Err(format!("mount {} on {} failed: {}", src, target, std::io::Error::last_os_error()));
  }
  Ok(())
}

pub fn enter_namespace() -> Result<(), String> {
  let rc = unsafe { libc::unshare(libc::CLONE_NEWNS) };
  if rc != 0 {
    return Err(format!("unshare(CLONE_NEWNS) failed: {}", std::io::Error::last_os_error()));
  }
  mount("none", "/", None, libc::MS_REC | libc::MS_PRIVATE)?;
  if std::path::Path::new("/proc/bus/input").is_dir() {
    mount("tmpfs", "/proc/bus/input", Some("tmpfs"), 0)?;
  } else {
    mount("tmpfs", "/proc/bus", Some("tmpfs"), 0)?;
    std::fs::create_dir_all("/proc/bus/input").map_err(|e| e.to_string())?;
  }
  mount("tmpfs", "/sys", Some("tmpfs"), 0)?;
  mount("tmpfs", "/dev", Some("tmpfs"), 0)?;
  // child processes (the real binary) need /dev/null
  let null = std::ffi::CString::new("/dev/null").unwrap();
  let rc = unsafe { libc::mknod(null.as_ptr(), libc::S_IFCHR | 0o666, libc::makedev(1, 3)) };
  if rc != 0 {
    return Err(format!("mknod /dev/null failed: {}", std::io::Error::last_os_error()));
  }
  Ok(())
}

fn populate(c: &E2ECase) -> Result<(), String> {
  let _ = std::fs::remove_dir_all("/sys/devices");
  let _ = std::fs::remove_dir_all("/dev/input");
  std::fs::create_dir_all("/dev/input/by-id").map_err(|e| e.to_string())?;
  std::fs::create_dir_all("/dev/input/by-path").map_err(|e| e.to_string())?;
  std::fs::write("/proc/bus/input/devices", c.text.pieces().concat()).map_err(|e| format!("write devices: {}", e))?;
  for e in &c.text.entries {
    if let Some(s) = &e.sysfs {
      let dir = format!("/sys{}", s);
      std::fs::create_dir_all(&dir).map_err(|e| e.to_string())?;
      // siblings that are not event nodes
      let _ = std::fs::create_dir_all(format!("{}/capabilities", dir));
      let _ = std::fs::create_dir_all(format!("{}/mouse0", dir));
      if let Some(n) = e.event_no {
        let ed = format!("{}/event{}", dir, n);
        std::fs::create_dir_all(&ed).map_err(|e| e.to_string())?;
        let uevent = if e.devname_line { format!("MAJOR=13\nMINOR={}\nDEVNAME=input/event{}\n", 64 + n, n) } else { format!("MAJOR=13\nMINOR={}\n", 64 + n) };
        std::fs::write(format!("{}/uevent", ed), uevent).map_err(|e| e.to_string())?;
      }
    }
    if let Some(n) = e.event_no {
      std::fs::write(format!("/dev/input/event{}", n), b"").map_err(|e| e.to_string())?;
      let _ = std::os::unix::fs::symlink(format!("../event{}", n), format!("/dev/input/by-id/usb-dev{}-event-kbd", n));
      let _ = std::os::unix::fs::symlink(format!("../event{}", n), format!("/dev/input/by-path/platform-dev{}-event", n));
    }
  }
  std::fs::write("/dev/input/unlisted", b"").map_err(|e| e.to_string())?;
  Ok(())
}

fn canon(p: &str) -> Option<String> {
  std::fs::canonicalize(p).ok().and_then(|c| c.to_str().map(|s| s.replace("//", "/")))
}

pub fn run_e2e_case(c: &E2ECase, binary: Option<&str>) -> Result<(u32, u32), Violation> {
  use crate::remapping_loop::verif::{filter_devices, flag_excluded_keyboards};
  populate(c).map_err(|e| Violation::new("io", e))?;
  let exp = expected_for(c);
  let ex_refs: Vec<&str> = c.excludes.iter().map(|s| s.as_str()).collect();
  // route A: --all-keyboards
  let kbs = crate::keyboard_listing::list_keyboards(false).map_err(|e| Violation::new("listing-failed", format!("list_keyboards failed on the fabricated tree: {}", e)))?;
  let flagged = flag_excluded_keyboards(kbs, &ex_refs);
  let mut got_a: BTreeMap<String, bool> = BTreeMap::new();
  for (k, excluded) in &flagged {
    got_a.insert(k.dev_path.to_string_lossy().to_string(), *excluded);
  }
  if got_a != exp.all_keyboards {
    return Err(Violation::new("wrong-selection-all-keyboards", format!("--all-keyboards with excludes {:?}: got (device -> excluded) {:?}, expected {:?}", c.excludes, got_a, exp.all_keyboards)));
  }
  let selected_a: BTreeSet<String> = got_a.iter().filter(|(_, ex)| !**ex).map(|(p, _)| p.clone()).collect();
  // route B: --dev-file for every event node (and other spellings) --only-if-keyboard
  let mut args: Vec<String> = c.text.entries.iter().filter_map(|e| e.event_no.map(|n| format!("/dev/input/event{}", n))).collect();
  args.extend(c.extra_args.iter().cloned());
  let arg_refs: Vec<&str> = args.iter().map(|s| s.as_str()).collect();
  let picked = filter_devices(&arg_refs, true, &ex_refs, false).map_err(|e| Violation::new("listing-failed", format!("filter_devices_verbose failed: {}", e)))?;
  // every argument must be kept or dropped according to the device it names
  for a in &args {
    let should = canon(a).map(|p| exp.selected.contains(&p)).unwrap_or(false);
    let did = picked.iter().any(|p| *p == a.as_str());
    if should != did {
      return Err(Violation::new("wrong-selection-dev-file", format!("--dev-file {} --only-if-keyboard with excludes {:?}: {} but it names {}", a, c.excludes, if did { "selected" } else { "not selected" }, if should { "a keyboard that is neither virtual nor excluded" } else { "a device that must not be remapped" })));
    }
  }
  let selected_b: BTreeSet<String> = picked.iter().filter_map(|p| canon(p)).collect();
  if selected_a != selected_b {
    return Err(Violation::new("routes-disagree", format!("--all-keyboards selects {:?}, --dev-file --only-if-keyboard selects {:?}", selected_a, selected_b)));
  }
  // without --only-if-keyboard: everything listed, non-virtual and non-excluded is taken
  let picked_any = filter_devices(&arg_refs, false, &ex_refs, false).map_err(|e| Violation::new("listing-failed", e))?;
  for p in &picked_any {
    let cp = canon(p).unwrap_or_default();
    // never a virtual or excluded device
    for e in &c.text.entries {
      if let (Some(n), Some(s)) = (e.event_no, &e.sysfs) {
        if cp == format!("/dev/input/event{}", n) {
          let name = e.name.clone().unwrap_or_default();
          if s.starts_with("/devices/virtual/input/") {
            return Err(Violation::new("virtual-device-selected", format!("--dev-file {} selects virtual device {:?} ({})", p, name, s)));
          }
          if e.key.is_some() && c.excludes.iter().any(|g| ref_glob(g, &name)) {
            return Err(Violation::new("excluded-device-selected", format!("--dev-file {} selects {:?} although it matches an exclude of {:?}", p, name, c.excludes)));
          }
        }
      }
    }
  }
  let mut binary_runs = 0;
  if let (true, Some(bin)) = (c.use_binary, binary) {
    binary_runs = 1;
    // the real binary, both routes
    let mut cmd_a = std::process::Command::new(bin);
    cmd_a.args(["remap", "--verbose", "--default-layout", "caps-q-for-esc", "--all-keyboards"]);
    for x in &c.excludes {
      cmd_a.args(["--exclude", x]);
    }
    let out = cmd_a.output().map_err(|e| Violation::new("io", format!("cannot run {}: {}", bin, e)))?;
    // the binary reports the number of devices and then opens them one by one: on the
    // fabricated tree the first open fails, so the count and the first path are observable
    let sel = parse_remapping(&String::from_utf8_lossy(&out.stderr));
    match sel {
      None => return Err(Violation::new("binary-output-unreadable", format!("`remap --all-keyboards --verbose` printed no 'Remapping N devices' line; stderr: {}", String::from_utf8_lossy(&out.stderr)))),
      Some((n, first)) => {
        // (the order in which the devices are opened is not promised: the first one printed
        // must be one of the expected devices)
        let first_ok = match &first { None => exp.selected_in_order.is_empty(), Some(f) => exp.selected.contains(f) };
        if n != exp.selected_in_order.len() || !first_ok {
          return Err(Violation::new("wrong-selection-all-keyboards", format!("the binary run with --all-keyboards and excludes {:?} reports {} devices starting with {:?}, expected {:?}", c.excludes, n, first, exp.selected_in_order)));
        }
      }
    }
    if !args.is_empty() {
      let mut cmd_b = std::process::Command::new(bin);
      cmd_b.args(["remap", "--verbose", "--default-layout", "caps-q-for-esc", "--only-if-keyboard"]);
      for a in &args {
        cmd_b.args(["--dev-file", a]);
      }
      for x in &c.excludes {
        cmd_b.args(["--exclude", x]);
      }
      let out = cmd_b.output().map_err(|e| Violation::new("io", format!("cannot run {}: {}", bin, e)))?;
      match parse_remapping(&String::from_utf8_lossy(&out.stderr)) {
        None => return Err(Violation::new("binary-output-unreadable", format!("`remap --dev-file ... --verbose` printed no 'Remapping N devices' line; stderr: {}", String::from_utf8_lossy(&out.stderr)))),
        Some((n, first)) => {
          // expected: the arguments that name a selected device, in argument order
          let want: Vec<&String> = args.iter().filter(|a| canon(a).map(|p| exp.selected.contains(&p)).unwrap_or(false)).collect();
          let first_ok = match &first { None => want.is_empty(), Some(f) => want.iter().any(|w| *w == f) };
          if n != want.len() || !first_ok {
            return Err(Violation::new("wrong-selection-dev-file", format!("the binary run with --dev-file {:?} --only-if-keyboard and excludes {:?} reports {} devices starting with {:?}, expected {:?}", args, c.excludes, n, first, want)));
          }
        }
      }
    }
  }
  Ok((exp.selected.len() as u32, binary_runs))
}

// (number of devices reported, first device path printed)
fn parse_remapping(stderr: &str) -> Option<(usize, Option<String>)> {
  let mut lines = stderr.lines();
  while let Some(l) = lines.next() {
    if l.starts_with("Remapping ") && l.ends_with(" devices.") {
      let n: usize = l["Remapping ".len()..l.len() - " devices.".len()].parse().ok()?;
      let first = match lines.next() {
        Some(p) if p.starts_with(" * ") => Some(p[3..].to_string()),
        _ => None,
      };
      return Some((n, first));
    }
  }
  None
}

// worker process: single-threaded, own mount namespace, one proptest shard; prints one JSON line
pub fn worker_main(shard: usize, cases: u32, seed: u64, quick: bool, binary: Option<String>) -> i32 {
  if let Err(e) = enter_namespace() {
    println!("{}", json!({"infra_error": e}));
    return 2;
  }
  let real = real_entries();
  let cfg = RunCfg { seed, tier: if quick { Tier::Quick } else { Tier::Thorough }, threads: 1 };
  let bin = binary.clone();
  let every: u64 = if quick { 8 } else { 6 };
  let (st, fail) = run_prop_shard(
    &cfg,
    "C16-e2e",
    shard,
    cases,
    64,
    400,
    400,
    |src: &mut Src| {
      let mut c = gen_e2e_case(src, &real, true);
      c.use_binary = false;
      c
    },
    |c: &E2ECase, stats: &mut Stats| {
      // about one case in n also goes through the real binary (a pure function of the case)
      let mut c2 = c.clone();
      c2.use_binary = bin.is_some() && hash64(&c.to_json().to_string()) % every == 0;
      let (nsel, nbin) = run_e2e_case(&c2, bin.as_deref())?;
      stats.count("binary-runs", nbin as u64);
      stats.count("devices-selected", nsel as u64);
      let has_kb = nsel > 0;
      let odd = c.text.entries.iter().any(|e| e.name.is_none() || e.sysfs.is_none() || e.ev.is_none() || e.key.is_none() || e.sysfs.as_ref().map(|s| s.starts_with("/devices/virtual/input/")).unwrap_or(false)) || !c.excludes.is_empty();
      if !c.excludes.is_empty() {
        stats.label("with-excludes");
      }
      if c.text.entries.iter().any(|e| e.sysfs.as_ref().map(|s| s.starts_with("/devices/virtual/input/")).unwrap_or(false)) {
        stats.label("with-virtual-device");
      }
      if !c.extra_args.is_empty() {
        stats.label("other-path-spellings");
      }
      if c.text.entries.len() >= 2 && has_kb && odd {
        stats.label("non-trivial");
        stats.nontrivial_case(hash64(&c.to_json().to_string()));
        if stats.want_nontrivial_sample() && c.text.entries.len() <= 3 {
          stats.nontrivial_samples.push(json!({"devices_text": c.text.pieces().concat(), "excludes": c.excludes, "extra_dev_file_args": c.extra_args, "selected": nsel}));
        }
      }
      Ok(())
    },
  );
  if let Some(f) = &fail {
    if f.violation.kind == "io" || f.violation.kind == "flaky" {
      println!("{}", json!({"infra_error": format!("{}: {}", f.violation.kind, f.violation.detail)}));
      return 2;
    }
  }
  let failure = fail.map(|f| {
    let mut c = f.case.clone();
    c.use_binary = bin.is_some() && hash64(&c.to_json().to_string()) % every == 0;
    json!({"kind": f.violation.kind, "detail": f.violation.detail, "case": c.to_json()})
  });
  println!("{}", json!({
    "evaluations": st.evaluations,
    "nontrivial": st.nontrivial.iter().collect::<Vec<_>>(),
    "labels": st.labels,
    "counters": st.counters,
    "samples": st.nontrivial_samples,
    "failure": failure,
  }));
  0
}

pub fn replay_worker(file: &str, binary: Option<String>) -> i32 {
  let text = match std::fs::read_to_string(file) {
    Ok(t) => t,
    Err(e) => {
      println!("{}", json!({"infra_error": format!("cannot read {}: {}", file, e)}));
      return 2;
    }
  };
  if let Err(e) = enter_namespace() {
    println!("{}", json!({"infra_error": e}));
    return 2;
  }
  let v: Value = serde_json::from_str(&text).unwrap_or(Value::Null);
  let case = v.get("case").unwrap_or(&v);
  let c = match E2ECase::from_json(case) {
    Some(c) => c,
    None => {
      println!("{}", json!({"infra_error": "bad case"}));
      return 2;
    }
  };
  match run_guarded(|| run_e2e_case(&c, binary.as_deref()).map(|_| ())) {
    Ok(()) => {
      println!("{}", json!({"ok": true}));
      0
    }
    Err(v) => {
      println!("{}", json!({"failure": {"kind": v.kind, "detail": v.detail}}));
      1
    }
  }
}

fn binary_path() -> Option<String> {
  let p = format!("{}/target-repo/release/totalmapper", crate::findings::verif_dir());
  if std::path::Path::new(&p).is_file() {
    Some(p)
  } else {
    None
  }
}

pub fn check(cfg: &RunCfg, _findings: &Findings) -> Report {
  let mut rep = Report::new(
    "C16",
    "exploration",
    "text case = /proc/bus/input/devices text of 1-10 entries from archetypes (keyboard, keypad, mouse, gaming mouse with a full key map, power button, switch, cros_ec, virtual device incl. one named totalmapper, bit soup, captured real entries), fields other than I: dropped at random, shuffled; oracles: per-entry classification is independent of neighbours, the two extractors agree, ground truth for unambiguous archetypes; end-to-end case = the same plus exclude globs and --dev-file spellings, run against a fabricated /proc,/sys,/dev in a private mount namespace through the real list_keyboards / flag_excluded / filter_devices_verbose and (a sample) the real binary; non-trivial = >=2 entries with a keyboard-like one and a missing-field, virtual or excluded one; distinct = hash of the case",
  );
  let quick = cfg.tier == Tier::Quick;
  let real = real_entries();
  rep.stats.count("captured-real-entries", real.len() as u64);
  // regressions (text level)
  let reg_dir = format!("{}/regressions/C16", crate::findings::verif_dir());
  if std::env::var("VERIF_NO_REGRESSIONS").is_err() {
    if let Ok(rd) = std::fs::read_dir(&reg_dir) {
      let mut files: Vec<_> = rd.filter_map(|e| e.ok()).map(|e| e.path()).filter(|p| p.extension().map(|x| x == "json").unwrap_or(false)).collect();
      files.sort();
      for f in files {
        if let Ok(v) = serde_json::from_str::<Value>(&std::fs::read_to_string(&f).unwrap_or_default()) {
          let case = v.get("case").unwrap_or(&v);
          if case.get("excludes").is_none() {
            if let Some(c) = TextCase::from_json(case) {
              rep.stats.evaluations += 1;
              if let Err(v) = run_guarded(|| check_text_case(&c).map(|_| ())) {
                rep.violations.push((v, f.to_string_lossy().to_string()));
                return rep;
              }
            }
          }
        }
      }
    }
  }
  // the whole captured list, as the existing test uses it
  if !real.is_empty() {
    let whole: String = real.concat();
    let kbs = crate::keyboard_listing::verif::extract_keyboards(&whole);
    rep.stats.evaluations += 1;
    if kbs.len() != 1 || kbs[0].1 != "AT Translated Set 2 keyboard" {
      let v = Violation::new("wrong-classification", format!("the captured device list of issue #2 yields {:?}, expected exactly the AT keyboard", kbs));
      let path = write_replay("C16", &v, &json!({"captured_list": true}));
      rep.violations.push((v, path));
      return rep;
    }
  }
  let real_ref = &real;
  let (st, fail) = run_prop(
    cfg,
    "C16-text",
    16,
    if quick { 30_000 } else { 150_000 },
    64,
    300,
    |src: &mut Src| gen_text_case(src, real_ref),
    |c: &TextCase, stats: &mut Stats| {
      let (has_kb, missing) = check_text_case(c)?;
      stats.label(&format!("entries:{}", c.entries.len() + c.real.len()));
      if missing {
        stats.label("entry-with-missing-field");
      }
      if !c.real.is_empty() {
        stats.label("with-captured-real-entry");
      }
      if c.entries.len() + c.real.len() >= 2 && has_kb && (missing || c.entries.iter().any(|e| e.arch == "virtual-keyboard")) {
        stats.label("non-trivial");
        stats.nontrivial_case(hash64(&c.pieces().concat()));
        if stats.want_sample() && c.entries.len() <= 2 && c.real.is_empty() {
          stats.samples.push(json!({"devices_text": c.pieces().concat()}));
        }
      }
      Ok(())
    },
  );
  rep.stats.merge(st);
  if let Some(f) = fail {
    // minimise: drop entries
    let kind = f.violation.kind.clone();
    let fails = |c: &TextCase| matches!(run_guarded(|| check_text_case(c).map(|_| ())), Err(v) if v.kind == kind);
    let mut best = f.case.clone();
    let mut changed = true;
    while changed {
      changed = false;
      for i in (0..best.real.len()).rev() {
        let mut c = best.clone();
        c.real.remove(i);
        if fails(&c) {
          best = c;
          changed = true;
        }
      }
      for i in (0..best.entries.len()).rev() {
        let mut c = best.clone();
        c.entries.remove(i);
        if fails(&c) {
          best = c;
          changed = true;
        }
      }
    }
    let v2 = run_guarded(|| check_text_case(&best).map(|_| ())).err().unwrap_or(f.violation);
    let path = write_replay("C16", &v2, &best.to_json());
    rep.violations.push((v2, path));
    return rep;
  }
  // end to end: worker processes, each in its own mount namespace
  let exe = std::env::current_exe().map(|p| p.to_string_lossy().to_string()).unwrap_or_else(|_| "tmverif".into());
  let bin = binary_path();
  rep.extra.insert("real_binary".into(), json!(bin.clone().unwrap_or("not built".into())));
  let shards = 16usize;
  let per_shard: u32 = if quick { 1_200 } else { 6_000 };
  let outs: Vec<Result<Value, String>> = par_map(cfg.threads, shards, |shard| {
    let mut cmd = std::process::Command::new(&exe);
    cmd.args(["c16-worker", &shard.to_string(), &per_shard.to_string(), &cfg.seed.to_string(), if quick { "quick" } else { "thorough" }]);
    if let Some(b) = &bin {
      cmd.arg(b);
    }
    let out = cmd.output().map_err(|e| format!("cannot start worker: {}", e))?;
    let line = String::from_utf8_lossy(&out.stdout).lines().last().unwrap_or("").to_string();
    serde_json::from_str::<Value>(&line).map_err(|e| format!("worker {} printed no result ({}); status {:?}; stderr: {}", shard, e, out.status, String::from_utf8_lossy(&out.stderr).chars().take(600).collect::<String>()))
  });
  let mut infra: Vec<String> = Vec::new();
  for o in outs {
    match o {
      Err(e) => infra.push(e),
      Ok(v) => {
        if let Some(e) = v.get("infra_error").and_then(|x| x.as_str()) {
          infra.push(e.to_string());
          continue;
        }
        rep.stats.evaluations += v.get("evaluations").and_then(|x| x.as_u64()).unwrap_or(0);
        rep.stats.count("end-to-end-cases", v.get("evaluations").and_then(|x| x.as_u64()).unwrap_or(0));
        for h in v.get("nontrivial").and_then(|x| x.as_array()).cloned().unwrap_or_default() {
          if let Some(h) = h.as_u64() {
            rep.stats.nontrivial_case(h);
          }
        }
        if let Some(l) = v.get("labels").and_then(|x| x.as_object()) {
          for (k, n) in l {
            *rep.stats.labels.entry(format!("e2e:{}", k)).or_insert(0) += n.as_u64().unwrap_or(0);
          }
        }
        if let Some(l) = v.get("counters").and_then(|x| x.as_object()) {
          for (k, n) in l {
            rep.stats.count(k, n.as_u64().unwrap_or(0));
          }
        }
        for s in v.get("samples").and_then(|x| x.as_array()).cloned().unwrap_or_default() {
          if rep.stats.want_nontrivial_sample() {
            rep.stats.nontrivial_samples.push(s);
          }
        }
        if let Some(f) = v.get("failure") {
          if !f.is_null() && rep.violations.is_empty() {
            let viol = Violation::new(f.get("kind").and_then(|x| x.as_str()).unwrap_or("?"), f.get("detail").and_then(|x| x.as_str()).unwrap_or("").to_string());
            let path = write_replay("C16", &viol, f.get("case").unwrap_or(&Value::Null));
            rep.violations.push((viol, path));
          }
        }
      }
    }
  }
  if !infra.is_empty() {
    rep.extra.insert("infrastructure_errors".into(), json!(infra));
    eprintln!("[C16] end-to-end part unavailable: {}", infra[0]);
  }
  rep.assumptions = vec![
    "the kernel always prints the I: line of an entry (it is what delimits entries)".to_string(),
    "ground truth for 'keyboard-like' only where unambiguous (grounded in the code's comments, issue #2 and the existing test); bit-soup entries carry none".to_string(),
    "the real binary is run up to its 'Remapping N devices' report; it then fails to open the fabricated nodes, which are not evdev devices".to_string(),
    "reference glob: * any sequence, ? any one character, everything else literal (the documented behaviour of the wildmatch crate)".to_string(),
  ];
  rep
}

pub fn replay(file: &str) -> Result<(), Violation> {
  let text = std::fs::read_to_string(file).map_err(|e| Violation::new("io", format!("cannot read {}: {}", file, e)))?;
  let v: Value = serde_json::from_str(&text).map_err(|e| Violation::new("io", e.to_string()))?;
  let case = v.get("case").unwrap_or(&v);
  if case.get("excludes").is_some() {
    // end-to-end case: needs the namespace, run in a worker
    let exe = std::env::current_exe().map(|p| p.to_string_lossy().to_string()).unwrap_or_else(|_| "tmverif".into());
    let mut cmd = std::process::Command::new(&exe);
    cmd.args(["c16-replay-worker", file]);
    if let Some(b) = binary_path() {
      cmd.arg(b);
    }
    let out = cmd.output().map_err(|e| Violation::new("io", e.to_string()))?;
    let line = String::from_utf8_lossy(&out.stdout).lines().last().unwrap_or("").to_string();
    let r: Value = serde_json::from_str(&line).map_err(|e| Violation::new("io", format!("worker output unreadable: {}", e)))?;
    if let Some(f) = r.get("failure") {
      return Err(Violation::new(f.get("kind").and_then(|x| x.as_str()).unwrap_or("?"), f.get("detail").and_then(|x| x.as_str()).unwrap_or("").to_string()));
    }
    if let Some(e) = r.get("infra_error") {
      return Err(Violation::new("io", e.to_string()));
    }
    return Ok(());
  }
  if case.get("captured_list").is_some() {
    let whole: String = real_entries().concat();
    let kbs = crate::keyboard_listing::verif::extract_keyboards(&whole);
    if kbs.len() != 1 || kbs[0].1 != "AT Translated Set 2 keyboard" {
      return Err(Violation::new("wrong-classification", format!("the captured device list yields {:?}", kbs)));
    }
    return Ok(());
  }
  let c = TextCase::from_json(case).ok_or_else(|| Violation::new("io", "bad case".to_string()))?;
  run_guarded(|| check_text_case(&c).map(|_| ()))
}
