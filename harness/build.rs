// Emits `#[path = "<repo>/src/x.rs"] pub mod x;` for every `mod x;` of the repository's
// main.rs, so that the harness compiles the very same source files as the repository build.
use std::env;
use std::fs;
use std::path::PathBuf;

fn main() {
  let repo = env::var("TM_REPO").unwrap_or_else(|_| "/repo".to_string());
  println!("cargo:rerun-if-env-changed=TM_REPO");
  println!("cargo:rerun-if-changed={}/src", repo);
  println!("cargo:rerun-if-changed={}/Cargo.toml", repo);
  println!("cargo:rustc-env=TM_REPO_DIR={}", repo);
  let main_rs = fs::read_to_string(format!("{}/src/main.rs", repo)).expect("read main.rs");
  let mut out = String::new();
  for line in main_rs.lines() {
    let t = line.trim();
    if let Some(rest) = t.strip_prefix("mod ") {
      if let Some(name) = rest.strip_suffix(';') {
        let name = name.trim();
        if name.chars().all(|c| c.is_ascii_alphanumeric() || c == '_') {
          let p = format!("{}/src/{}.rs", repo, name);
          println!("cargo:rerun-if-changed={}", p);
          out.push_str(&format!("#[path = \"{}\"] pub mod {};\n", p, name));
        }
      }
    }
  }
  let out_dir = PathBuf::from(env::var("OUT_DIR").unwrap());
  fs::write(out_dir.join("mods.rs"), out).unwrap();
}
