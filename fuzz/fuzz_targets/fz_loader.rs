#![no_main]
use libfuzzer_sys::fuzz_target;

// The semantic oracle lives in the harness library; a violation of the selected property
// (env TM_FZ_PROP) panics, which libFuzzer records as a crash artifact. The artifact is never
// reported as such: the thorough tier re-runs it through the harness's replay path.
fuzz_target!(|data: &[u8]| {
  tmverif::fuzz_api::fz_loader(data);
});
