#!/bin/bash
# Development aid: builds the harness against a scratch worktree of /repo with one patch applied
# (TM_REPO, own target dir under /var/tmp) and runs tmverif there, so that /repo itself stays
# untouched while registered checks run. Evidence and replays go to the scratch dir.
# usage: tools/withpatch.sh <name> <absolute patch file | -> <tmverif args...>    (remove with: tools/withpatch.sh <name> --rm)
set -u
NAME="$1"; PATCH="$2"; shift 2
SCR=/var/tmp/wp-$NAME
if [ "$PATCH" = "--rm" ]; then git -C /repo worktree remove --force $SCR/repo 2>/dev/null; rm -rf $SCR; exit 0; fi
if [ ! -d $SCR/repo ]; then
  mkdir -p $SCR && git -C /repo worktree add -q --detach $SCR/repo HEAD || exit 2
  if [ "$PATCH" != "-" ]; then git -C $SCR/repo apply "$PATCH" || { echo "patch does not apply"; exit 2; }; fi
fi
# the harness target dir is shared between scratch builds (one rebuild of the tmverif crate per switch)
( cd /verif/harness && TM_REPO=$SCR/repo CARGO_TARGET_DIR=$SCR/target cargo build --release --offline 2>&1 | grep -E "^error" -A8 | head -30 )
mkdir -p $SCR/out
VERIF_DIR=/verif VERIF_OUT_DIR=$SCR/out VERIF_NO_REGRESSIONS=1 TM_REPO=$SCR/repo "$SCR/target/release/tmverif" "$@"
