#!/usr/bin/env python3
# Generates /verif/MANIFEST.json (kept in the repository; re-run after changing the table below).
import json, subprocess, os
HERE = os.path.dirname(os.path.dirname(os.path.abspath(__file__)))

def sh(c):
    return subprocess.check_output(c, shell=True, text=True).strip()

hook_commits = [l.split()[0] for l in sh("git -C /repo log --format='%h %s'").splitlines() if 'verif hook' in l]

P = {
 'C01': ('proptest histories (random, typing, marathon, giant-layout and rollover stages) + exhaustive BFS state sweep of the real mapper; libFuzzer campaign in the thorough tier; oracle: fold of emitted events is empty whenever the physical set is empty', '5/C01',
         'Generated (layout, history) cases incl. ill-formed events and release_all, plus breadth-first sweeps of the real step function (snapshot/restore hook) that decide every history with <=4 keys held for each swept layout; built-in, README and unit-test layouts in every run. A sample across layouts, exhaustive per swept layout.'),
 'C02': ('proptest histories (random, typing, marathon, giant-layout and rollover stages) + BFS state sweep; libFuzzer campaign in the thorough tier; oracle: justification predicate over (layout, physical set, output set) at every prefix, in-effect model for non-absorbing layouts, fired-now clause with the widest reading in absorbing layouts', '5/C02', 'Every prefix of every generated/swept history is checked against the clauses of the property; the in-effect clause uses a 10-line model independent of the mapper.'),
 'C03': ('proptest histories + BFS state sweep on layouts with distinguished output keys; oracle: last-listed-satisfied model computed from layout + physical set', '5/C03', 'Which mapping fired is observed through output keys that occur nowhere else; checked at every acted press from every reached state.'),
 'C04': ('proptest histories + BFS state sweep; oracle: modifier set folded to the instant of each distinguished key press', '5/C04', 'Event order inside one step is folded one event at a time; instants are presses of distinguished final output keys.'),
 'C05': ('proptest histories with foreign keys + BFS state sweep; oracle: projection of the output stream on foreign keys and on protected outputs of in-effect mappings', '5/C05', 'Non-interference clauses (i)-(iii) of the property as stream predicates; empty layout = identity.'),
 'C06': ('differential testing against a fresh mapper (proptest) + enumerated product sweep (bisimulation check) from every reached rest / release_all state', '5/C06', 'Used mapper vs newly built mapper compared on StepResult for generated continuations, and lock-step exploration to a fixpoint from every distinct cut state of each swept layout.'),
 'C07': ('proptest histories + BFS state sweep; oracle: no non-modifier in the folded output after a no-repeat firing, outputs pressed in the step, no key held again until the next press', '5/C07', 'Firing is taken from the model (non-absorbing) or from distinguished keys / Repeating results (absorbing).'),
 'C08': ('proptest histories + BFS state sweep with absorb windows in the pruning key; oracle: absorb-window monitor over distinguished keys and the folded output', '5/C08', 'The sweep is essential: the repaired defect needs one specific 6-event history on a rare layout shape; random search alone missed it in 300k cases.'),
 'C09': ('proptest histories + BFS state sweep; oracle: StepResult.repeat vs fired mapping / ignored-event rule (unique repeat parameters identify the mapping)', '5/C09', 'Exact in non-absorbing layouts, observable-only in absorbing ones.'),
 'C10': ('proptest (layout, history, delivery schedule) against the real per-device loop through a scripted driver; oracle: trace monitor (lost wake-up, end of device) + twin mapper differential; plus generated runs of the loop on the repository real driver (epoll, device readers, uinput writer) over harness-owned socket pairs and a pipe, judged at quiescent points against the twin mapper', '5/C10', 'Edge-triggered two-device world model with batching, mid-drain arrivals, spurious time-outs/readiness, one interruption, end of device in the same or a later wake-up.'),
 'C11': ('proptest schedules with time-outs against the real loop; oracle: interval arithmetic on the real monotonic clock (true bounds, no tolerance) + chord content/transience fold', '5/C11', 'Deadlines demanded by delay + n*interval are intersected with the interval the loop can have aimed at; a slice of cases really sleeps until the deadline so that a missing chord is caught.'),
 'C12': ('proptest schedules with tablet on/off placements against the real loop; oracle: trace monitor (release batch, silence while on, fresh-mapper differential after a change, no timer chord without a firing since the last change); plus generated runs on the real driver over socket pairs (release batch, silence, fresh start read from the sink)', '5/C12', 'Tablet events anywhere: repeated, during chords, with a repeat pending, in the same wake-up as keyboard events in either report order.'),
 'C13': ('grammar-based program generation (proptest) + independent reference expander (translation validation), respelling metamorphic relation, must-reject mutants, exhaustive row x character x position table sweep', '5/C13', 'Every generated program is converted by the real loader and compared with a reference expansion written from the README and the property text with its own tables.'),
 'C14': ('proptest JSON trees over a vocabulary, structure-aware mutants of valid layouts, byte damage; libFuzzer target in the thorough tier; oracle: no panic in load / install / drive', '5/C14', 'Every input goes through load_layout_from_file; accepted layouts are installed in the mapper and driven with a generated history under catch_unwind.'),
 'C15': ('round-trip property (proptest) + exhaustive sweep over all key codes; oracle: saved-then-loaded layout equals the original mapping list', '5/C15', 'Save path (serde) and load path (shorthand parser + converter) are connected exactly as the systemd service connects them.'),
 'C16': ('proptest device-list texts from archetypes with dropped fields (context-independence metamorphic relation, two-extractor differential, ground truth by construction) + end-to-end runs of the real listing/filter code and the real binary on a fabricated /proc,/sys,/dev in a private mount namespace; reference glob matcher; device names in generated spelling variants of the words the code looks for', '5/C16', 'Both extractors, the virtual-device filter, the exclude filter and both device-selection routes are exercised on generated device lists; a sample of cases goes through the unmodified binary.'),
 'C17': ('exhaustive enumeration of all single scalar values and all pairs/triples over the syntax alphabet + proptest strings and lists (long lists, tokens harvested from the source text); oracle: independent decoder of systemd ExecStart= rules', '5/C17', 'The unit text produced by the real code is decoded by an independent implementation of systemd\'s documented rules and compared byte for byte.'),
 'C18': ('exhaustive enumeration over key codes and over foreign (type, code) pairs + proptest batches and foreign-record streams; oracle: libc::input_event layout, kernel header key codes, writer->reader round trip over a pipe; sessions through one writer with rejected, short and full-then-drained sinks', '5/C18', 'The writer runs on a memfd, the reader on a non-blocking pipe; no uinput/evdev device is needed.'),
 'C19': ('proptest histories (random, typing, marathon, giant-layout and rollover stages) + BFS state sweep; libFuzzer campaign in the thorough tier; oracle: press only when up / release only when down over the concatenated output stream', '5/C19', 'Same generators as C01; the fold runs over every step and every release_all batch.'),
 'C20': ('fault injection: for each generated scripted run, the k-th driver call fails for every k (all up to 256 calls, a generated subset beyond) + interrupt-storm slice; oracle: returned error carries the injected marker, no write after the fault, writes are a prefix of the fault-free run; plus runs on the real driver ending in a real EPIPE on the sink or ECONNRESET on the keyboard / tablet socket', '5/C20', 'One fault per run, enumerated over every driver call of the run.'),
}

LEVEL = {k: 'exploration' for k in P}
LEVEL['C20'] = 'fault_enumeration'
LEVEL['C13'] = 'translation_validation'

checks = []
for pid in sorted(P):
    tech, ref, text = P[pid]
    checks.append({
        'property_id': pid,
        'quick_cmd': './check %s quick' % pid,
        'thorough_cmd': './check %s thorough' % pid,
        'evidence_file': '/verif/evidence/%s.json' % pid,
        'replay_cmd_template': './check %s --replay {path}' % pid,
        'engine': 'tmverif',
        'level_claimed': {'category': LEVEL[pid], 'text': text, 'design_ref': 'DESIGN.md section ' + ref},
        'level_note': 'Generated-input search shows presence of violations, not absence; bounds (events per history, keys held, sweep caps, case counts) are written into the evidence file of every run. Trusted: the dependency crates, the kernel interfaces, and the harness oracles themselves (each was checked against deliberately broken code, see DESIGN.md section 10).',
        'technique': tech,
    })

not_applicable = []
if os.path.exists(os.path.join(HERE, 'tools', 'not_applicable.json')):
    not_applicable = json.load(open(os.path.join(HERE, 'tools', 'not_applicable.json')))
claimed = {c['property_id'] for c in checks}
not_applicable = [n for n in not_applicable if n['property_id'] not in claimed]

m = {
 'version': 1,
 'setup_cmd': 'cd /verif && ./setup.sh',
 'hooks': {
   'guard': 'ellbur_totalmapper_verif',
   'enable': 'RUSTFLAGS / [build] rustflags = ["--cfg", "ellbur_totalmapper_verif"] in /verif/harness/.cargo/config.toml; the harness crate compiles /repo/src/*.rs directly (build.rs emits #[path] modules), so every check rebuilds from /repo\'s working tree',
   'baseline_off_cmd': 'cd /repo && cargo test --workspace --no-fail-fast --offline',
   'source_commits': hook_commits,
   'add_only': True,
 },
 'engines': [
   {'name': 'tmverif', 'path': '/verif/harness', 'serves_properties': sorted(P), 'kind_free_text': 'Rust harness crate: proptest 1.11 TestRunner over a choice tape (fixed 16 shards seeded from VERIF_SEED), enumerators (key codes, scalar values, BFS state sweeps of the real mapper), scripted driver for the real event loop, reference models and decoders as oracles'},
 ],
 'checks': checks,
 'notes': 'check <ID> <quick|thorough> [--replay FILE]; exit 0 = held, exit 1 + VIOLATION line, exit 2 = infrastructure problem. Known / fixed findings: /verif/known_findings.json. Regression replays: /verif/regressions/<ID>/.',
 'not_applicable': not_applicable,
}
json.dump(m, open(os.path.join(HERE, 'MANIFEST.json'), 'w'), indent=1)
print('wrote MANIFEST.json with', len(checks), 'checks;', len(not_applicable), 'not applicable')
