#!/usr/bin/env python3
"""False-alarm test: property-preserving changes (written by sub-agents that saw only the
property texts) are applied to /repo one at a time; the listed quick checks must stay silent.
Usage: tools/benign.py <incoming dir> [GROUP ...] | tools/benign.py rerun [NAME ...]; results in /var/tmp/benign-summary.json and
copies under /verif/seeded/benign/<group>-<n>/."""
import json, os, shutil, subprocess, sys, time, glob

GROUPS = {'B1': ['C01', 'C02', 'C19', 'C05', 'C03', 'C06'], 'B2': ['C03', 'C04', 'C07', 'C09', 'C01', 'C02', 'C05', 'C19'], 'B3': ['C06', 'C08', 'C01', 'C19', 'C12', 'C10', 'C11'],
          'B4': ['C10', 'C20', 'C11', 'C12'], 'B5': ['C11', 'C12', 'C10', 'C20'], 'B6': ['C13', 'C15', 'C14'], 'B7': ['C14', 'C17', 'C13', 'C15', 'C01', 'C08'], 'B8': ['C16', 'C18']}

def sh(cmd, **kw):
    return subprocess.run(cmd, shell=True, text=True, capture_output=True, **kw)

def rerun(names):
    """tools/benign.py rerun [NAME ...]: the kept changes under /verif/seeded/benign, nothing else needed"""
    root = '/verif/seeded/benign'
    names = names or sorted(os.listdir(root))
    alarms = []
    for name in names:
        g = name.split('-')[0]
        diff = f'{root}/{name}/patch.diff'
        if sh('git -C /repo status --porcelain --untracked-files=no').stdout.strip():
            print('/repo is not clean - aborting'); sys.exit(2)
        if sh(f'git -C /repo apply {diff}').returncode != 0:
            print(f'[{name}] does not apply'); continue
        meta = json.load(open(f'{root}/{name}/meta.json'))
        try:
            for chk in GROUPS[g]:
                t0 = time.time()
                rr = sh(f'cd /verif && VERIF_OUT_DIR=/var/tmp/benign-out-ev VERIF_SEED=1 ./check {chk} quick 2>&1 | grep -E "^VIOLATION|OK:|^\\[{chk}\\] [a-z-]+:|build failed" | head -4')
                out = rr.stdout.strip()
                alarm = 'VIOLATION' in out
                meta.setdefault('checks_run', {})[chk] = {'alarm': alarm, 'broken': 'OK:' not in out and not alarm, 'first_line': out.splitlines()[0][:400] if out else '', 'wall_s': round(time.time() - t0, 1)}
                print(f'[{name}] {chk}: {"ALARM" if alarm else "silent"} ({time.time()-t0:.1f}s)', flush=True)
                if alarm: alarms.append((name, chk))
        finally:
            sh('git -C /repo checkout -- .')
        json.dump(meta, open(f'{root}/{name}/meta.json', 'w'), indent=1)
    print('ALARMS:', alarms)

def main():
    if sys.argv[1] == 'rerun':
        return rerun(sys.argv[2:])
    incoming = sys.argv[1]
    groups = sys.argv[2:] or sorted(GROUPS)
    summary = {}
    if os.path.exists('/var/tmp/benign-summary.json'):
        summary = json.load(open('/var/tmp/benign-summary.json'))
    for g in groups:
        d = os.path.join(incoming, g)
        notes = {}
        try:
            for e in json.load(open(os.path.join(d, 'benign.json'))):
                notes[e.get('file')] = e
        except Exception as ex:
            print('no benign.json for', g, ex)
        for diff in sorted(glob.glob(os.path.join(d, 'benign*.diff'))):
            name = f'{g}-{os.path.basename(diff)[len("benign"):-len(".diff")]}'
            if sh('git -C /repo status --porcelain --untracked-files=no').stdout.strip():
                print('/repo is not clean - aborting'); sys.exit(2)
            r = sh(f'git -C /repo apply {diff}')
            if r.returncode != 0:
                print(f'[{name}] does not apply: {r.stderr[:200]}'); summary[name] = {'applies': False}; continue
            rec = {'applies': True, 'checks': {}}
            try:
                t = sh('cd /repo && cargo test --offline 2>&1 | grep -E "^test result" | head -1')
                rec['repo_tests'] = t.stdout.strip()
                for chk in GROUPS[g]:
                    t0 = time.time()
                    rr = sh(f'cd /verif && VERIF_OUT_DIR=/var/tmp/benign-out-ev VERIF_SEED=1 ./check {chk} quick 2>&1 | grep -E "^VIOLATION|OK:|^\\[{chk}\\] [a-z-]+:|build failed|error(\\[|:)" | head -4')
                    out = rr.stdout.strip()
                    alarm = 'VIOLATION' in out
                    broken = ('build failed' in out) or ('OK:' not in out and not alarm)
                    rec['checks'][chk] = {'alarm': alarm, 'broken': broken, 'first_line': out.splitlines()[0][:400] if out else '', 'wall_s': round(time.time() - t0, 1)}
                    print(f'[{name}] {chk}: {"ALARM" if alarm else ("BROKEN" if broken else "silent")} ({time.time()-t0:.1f}s) {out.splitlines()[0][:220] if (alarm or broken) and out else ""}', flush=True)
            finally:
                sh('git -C /repo checkout -- .')
            dest = f'/verif/seeded/benign/{name}'
            os.makedirs(dest, exist_ok=True)
            shutil.copy(diff, os.path.join(dest, 'patch.diff'))
            n = notes.get(os.path.basename(diff), {})
            json.dump({'kind': 'property-preserving change (false-alarm test)', 'origin': 'independent sub-agent given only the property texts and a scratch worktree', 'summary': n.get('summary', ''), 'observable_difference': n.get('observable_difference', ''), 'why_properties_still_hold': n.get('why_properties_still_hold', ''), 'repo_tests': rec.get('repo_tests', ''), 'checks_run': rec['checks']}, open(os.path.join(dest, 'meta.json'), 'w'), indent=1)
            summary[name] = rec
            json.dump(summary, open('/var/tmp/benign-summary.json', 'w'), indent=1)

if __name__ == '__main__':
    main()
