#!/bin/bash
# Runs every quick check for the given seeds; prints one line per run. Evidence goes to a scratch dir.
# usage: tools/allquick.sh "1 2 3" [tier]
cd "$(dirname "$0")/.."
SEEDS="${1:-1}"; TIER="${2:-quick}"
for s in $SEEDS; do
  for i in 01 02 03 04 05 06 07 08 09 10 11 12 13 14 15 16 17 18 19 20; do
    t0=$(date +%s.%N)
    out=$(VERIF_OUT_DIR=/var/tmp/allquick-out VERIF_SEED=$s ./check C$i $TIER 2>&1); code=$?
    t1=$(date +%s.%N)
    echo "seed=$s C$i exit=$code $(printf '%.1f' $(echo "$t1-$t0" | bc))s $(echo "$out" | grep -E 'VIOLATION|KNOWN|watchdog' | head -2 | tr '\n' ' ')"
  done
done
