#!/opt/veriftools/pyvenv/bin/python
import json, glob, sys, jsonschema
m = json.load(open('/verif/MANIFEST.json')); s = json.load(open('/root/.vp/MANIFEST.schema.json'))
jsonschema.validate(m, s); print('manifest valid;', len(m['checks']), 'checks')
es = json.load(open('/root/.vp/EVIDENCE.schema.json'))
bad = 0
for f in sorted(glob.glob('/verif/evidence/*.json')):
    try:
        e = json.load(open(f)); jsonschema.validate(e, es)
        c = e['coverage']
        print(f.split('/')[-1], 'valid', e['tier'], 'evals', c.get('evaluations'), 'nontrivial', c.get('distinct_nontrivial'), 'samples', len(c.get('samples', [])), 'size', len(open(f).read()))
    except Exception as ex:
        bad += 1; print(f, 'INVALID', str(ex)[:300])
sys.exit(1 if bad else 0)
