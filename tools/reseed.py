#!/usr/bin/env python3
"""Re-runs the quick check of every already confirmed seeded change under /verif/seeded
(not benign/): applies patch.diff to /repo, runs ./check <property> quick with the regression
replays switched off and the evidence redirected, undoes the change straight afterwards and
updates checks_run in meta.json. Usage: tools/reseed.py [NAME ...]   (default: all)"""
import json, os, subprocess, sys, time

def sh(cmd, **kw):
    return subprocess.run(cmd, shell=True, text=True, capture_output=True, **kw)

def main():
    root = '/verif/seeded'
    names = sys.argv[1:] or sorted(n for n in os.listdir(root) if n != 'benign' and os.path.exists(f'{root}/{n}/patch.diff'))
    missed = []
    for n in names:
        meta_p = f'{root}/{n}/meta.json'
        meta = json.load(open(meta_p))
        pid = meta['property']
        if sh('git -C /repo status --porcelain --untracked-files=no').stdout.strip():
            print('/repo is not clean - aborting'); sys.exit(2)
        if sh(f'git -C /repo apply {root}/{n}/patch.diff').returncode != 0:
            print(f'{n}: does not apply'); missed.append(n); continue
        try:
            t0 = time.time()
            rr = sh(f'cd /verif && VERIF_OUT_DIR=/var/tmp/seedchk-out VERIF_SEED=1 ./check {pid} quick 2>/dev/null | grep -E "^VIOLATION|OK:|^\\[{pid}\\] [a-z0-9-]+:" | head -3', env={**os.environ, 'VERIF_NO_REGRESSIONS': '1'})
        finally:
            sh('git -C /repo checkout -- .')
        caught = 'VIOLATION' in rr.stdout
        first = rr.stdout.strip().splitlines()[0][:300] if rr.stdout.strip() else ''
        meta.setdefault('checks_run', {})[pid] = {'caught': caught, 'wall_s': round(time.time() - t0, 1), 'first_line': first}
        json.dump(meta, open(meta_p, 'w'), indent=1)
        print(f'{n}: {pid} quick {"CAUGHT" if caught else "MISSED"} ({time.time()-t0:.1f}s) {first[:150]}', flush=True)
        if not caught: missed.append(n)
    print('MISSED:', missed)

if __name__ == '__main__':
    main()
