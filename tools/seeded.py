#!/usr/bin/env python3
"""Confirms sub-agent deliveries (patch + demonstration) in a scratch worktree, runs the
registered checks against each confirmed change (applied to /repo, undone straight
afterwards) and files the kept ones under /verif/seeded/<id>/.
Usage: tools/seeded.py <incoming dir> [ID ...]      e.g. tools/seeded.py /tmp/seeded-out C03 C04
Options via env: SEEDED_CHECKS="C01,C19" (extra checks to run besides the property's own),
                 SEEDED_TIER=quick|thorough"""
import json, os, shutil, subprocess, sys, time, glob

WT = '/var/tmp/seedchk-wt'
TGT = '/var/tmp/seedchk-target'

def sh(cmd, **kw):
    return subprocess.run(cmd, shell=True, text=True, capture_output=True, **kw)

def tests(wt):
    os.makedirs(f'{wt}/target', exist_ok=True)  # (a demonstration may write its scratch files under <manifest dir>/target)
    r = sh(f'cd {wt} && CARGO_TARGET_DIR={TGT} cargo test --offline 2>&1 | grep -E "^test result" | head -3')
    out = r.stdout
    passed = failed = 0
    for l in out.splitlines():
        if l.startswith('test result'):
            parts = l.split()
            passed = int(parts[3]); failed = int(parts[5])
    return passed, failed, out

def clean(wt):
    sh(f'cd {wt} && git checkout -q -- . && git clean -fdq')

def main():
    incoming = sys.argv[1]
    ids = sys.argv[2:] or sorted(os.listdir(incoming))
    tier = os.environ.get('SEEDED_TIER', 'quick')
    extra = [c for c in os.environ.get('SEEDED_CHECKS', '').split(',') if c]
    if not os.path.isdir(WT):
        sh(f'git -C /repo worktree add -q --detach {WT} HEAD')
    summary = {}
    for pid in ids:
        d = os.path.join(incoming, pid)
        for patch in sorted(glob.glob(os.path.join(d, 'patch*.diff'))):
            suffix = os.path.basename(patch)[len('patch'):-len('.diff')]
            demo = os.path.join(d, f'demo{suffix}.diff')
            meta = os.path.join(d, f'meta{suffix}.json')
            tag = os.environ.get('SEEDED_TAG', '')
            name = f'{pid}{("-" + tag) if tag else ""}{("-" + suffix) if suffix else ""}'
            rec = {'patch': patch}
            sh(f'cd {WT} && git checkout -q --detach $(git -C /repo rev-parse HEAD)')
            clean(WT)
            # (a) demo alone
            ok = sh(f'cd {WT} && git apply {demo}').returncode == 0 if os.path.exists(demo) else False
            a = tests(WT) if ok else (0, 0, 'demo does not apply')
            clean(WT)
            # (b) patch alone
            okb = sh(f'cd {WT} && git apply {patch}').returncode == 0
            b = tests(WT) if okb else (0, 0, 'patch does not apply')
            # (c) patch + demo
            okc = okb and os.path.exists(demo) and sh(f'cd {WT} && git apply {demo}').returncode == 0
            c = tests(WT) if okc else (0, 0, 'demo does not apply after patch')
            clean(WT)
            rec['a_demo_alone'] = a[:2]; rec['b_patch_alone'] = b[:2]; rec['c_both'] = c[:2]
            confirmed = a[1] == 0 and a[0] >= 50 and b[1] == 0 and b[0] >= 49 and c[1] >= 1
            rec['confirmed'] = confirmed
            print(f'[{name}] demo alone {a[:2]}  patch alone {b[:2]}  both {c[:2]}  -> {"confirmed" if confirmed else "NOT confirmed"}', flush=True)
            if confirmed:
                # run the checks against /repo with the change applied, undo straight afterwards
                if sh('git -C /repo status --porcelain --untracked-files=no').stdout.strip():
                    print('  /repo is not clean - aborting'); sys.exit(2)
                r = sh(f'git -C /repo apply {patch}')
                if r.returncode != 0:
                    print('  does not apply to /repo:', r.stderr[:200]); rec['applies_to_repo'] = False
                else:
                    rec['checks'] = {}
                    try:
                        for chk in [pid] + extra:
                            t0 = time.time()
                            rr = sh(f'cd /verif && VERIF_OUT_DIR=/var/tmp/seedchk-out VERIF_SEED=1 ./check {chk} {tier} 2>/dev/null | grep -E "^VIOLATION|OK:|^\\[{chk}\\] [a-z-]+:" | head -3', env={**os.environ, 'VERIF_NO_REGRESSIONS': '1'})
                            caught = 'VIOLATION' in rr.stdout
                            first = rr.stdout.strip().splitlines()[0][:300] if rr.stdout.strip() else ''
                            rec['checks'][chk] = {'caught': caught, 'wall_s': round(time.time() - t0, 1), 'first_line': first}
                            print(f'  {chk} {tier}: {"CAUGHT" if caught else "MISSED"} ({time.time()-t0:.1f}s) {first[:160]}', flush=True)
                    finally:
                        sh('git -C /repo checkout -- .')
                # file it
                dest = f'/verif/seeded/{name}'
                os.makedirs(dest, exist_ok=True)
                shutil.copy(patch, os.path.join(dest, 'patch.diff'))
                shutil.copy(demo, os.path.join(dest, 'demo.diff'))
                m = {}
                if os.path.exists(meta):
                    try: m = json.load(open(meta))
                    except Exception: m = {'raw': open(meta).read()}
                m_out = {'property': pid, 'breaks': m.get('summary', m.get('breaks', '')), 'needs': m.get('needs', ''), 'files': m.get('files', []), 'demo_test': m.get('demo_test', ''),
                         'origin': 'independent sub-agent given only the property text and a scratch worktree' + (' (hard round: asked to evade randomized testers and small-scope explorers)' if os.environ.get('SEEDED_TAG') == 'hard' else ''),
                         'confirmed': {'repo_head': sh('git -C /repo rev-parse --short HEAD').stdout.strip(), 'demo_alone (passed, failed)': a[:2], 'patch_alone (passed, failed)': b[:2], 'patch_plus_demo (passed, failed)': c[:2],
                                       'how': 'scratch worktree outside /repo and /verif: git apply + cargo test --offline for each of the three combinations'},
                         'checks_run': rec.get('checks', {})}
                json.dump(m_out, open(os.path.join(dest, 'meta.json'), 'w'), indent=1)
            summary[name] = rec
    json.dump(summary, open('/var/tmp/seedchk-summary.json', 'w'), indent=1)

if __name__ == '__main__':
    main()
