#!/usr/bin/env python3
"""Sensitivity check: deliberately broken copies of /repo (outside /repo and /verif), one
mutation at a time; each listed check must report a VIOLATION within its quick budget.
Usage: tools/mutants.py [name-substring ...]      (results: /verif/tools/mutants-result.json)
Scratch space: /var/tmp/tm-mut (removed at the end)."""
import json, os, shutil, subprocess, sys, time

SCR = '/var/tmp/tm-mut'
REPO = SCR + '/repo'
TARGET = SCR + '/target'
OUT = SCR + '/verif-out'

# (name, file, old, new, [properties expected to catch it])
M = [
 ('newly_press-forward-scan', 'src/key_transforms.rs', 'for mapping in mappings.iter().rev() {', 'for mapping in mappings.iter() {', ['C03']),
 ('drop-release_action_mappings-in-add', 'src/key_transforms.rs', '  if is_action_mapping(m) {\n    events.append(&mut release_action_mappings(state));\n  }', '  if false && is_action_mapping(m) {\n    events.append(&mut release_action_mappings(state));\n  }', ['C04']),
 ('remove_mapping-no-still_used', 'src/key_transforms.rs', '        if active_mappings[j].to.contains(&k) {\n          still_used = true;', '        if false && active_mappings[j].to.contains(&k) {\n          still_used = true;', ['C05']),
 ('remove_mapping-no-still_shadowed', 'src/key_transforms.rs', '            if active_mappings[j].from.contains(&k) {\n              still_shadowed = true;', '            if false && active_mappings[j].from.contains(&k) {\n              still_shadowed = true;', ['C02']),
 ('newly_release-skip-passthrough-release-of-modifiers', 'src/key_transforms.rs', '    if state.pass_through_keys[i] == k {\n      events.push(Released(k));\n      state.pass_through_keys.remove(i);\n      break;\n    }\n  }\n  \n  state.input_pressed_keys.retain(|&old_key| {', '    if state.pass_through_keys[i] == k {\n      if is_action_key(&k) || state.active_mappings.is_empty() { events.push(Released(k)); }\n      state.pass_through_keys.remove(i);\n      break;\n    }\n  }\n  \n  state.input_pressed_keys.retain(|&old_key| {', ['C01']),
 ('release_all-skips-absorbed', 'src/key_transforms.rs', '    for k in to_release {\n      let mut chunk = self.step(Released(k));', '    for k in to_release {\n      if self.state.mapped_absorbed_keys.iter().any(|(a, _)| *a == k) { continue; }\n      let mut chunk = self.step(Released(k));', ['C06', 'C01']),
 ('special-no-release_all_action_keys', 'src/key_transforms.rs', '      // First release action keys\n      res.events.append(&mut release_all_action_keys(state));', '      // First release action keys\n      if state.active_mappings.len() < 2 { res.events.append(&mut release_all_action_keys(state)); }', ['C07']),
 ('absorbed-hidden-only-from-last-trigger', 'src/key_transforms.rs', '      .filter(|(_, trigger)| *trigger != k)', '      .filter(|(_, trigger)| *trigger != k && Some(*trigger) == state.mapped_absorbed_keys.last().map(|x| x.1))', ['C08']),
 ('absorbed-key-never-counts-again', 'src/key_transforms.rs', '  state.mapped_absorbed_keys.retain(|(k2, _)| *k2 != k);\n  state.repeating_trigger = None;', '  state.repeating_trigger = None;', ['C08', 'C06']),
 ('ignored-event-returns-disabled', 'src/key_transforms.rs', '        else {\n          StepResult {\n            events: vec![],\n            repeat: ResultingRepeat::NoChange\n          }\n        }\n      },\n      Released(k) => {', '        else {\n          StepResult {\n            events: vec![],\n            repeat: ResultingRepeat::Disabled\n          }\n        }\n      },\n      Released(k) => {', ['C09']),
 ('special-delay-is-interval', 'src/key_transforms.rs', '        delay_ms: *delay_ms,\n        interval_ms: *interval_ms\n      };\n      \n      // Save the key', '        delay_ms: *interval_ms,\n        interval_ms: *interval_ms\n      };\n      \n      // Save the key', ['C09']),
 ('double-release-reintroduced', 'src/key_transforms.rs', ' && !keys_to_release.contains(mod_key)', '', ['C19']),
 ('loop-break-after-first-event', 'src/remapping_loop.rs', '                          ResultingRepeat::NoChange => working_repeat\n                        };\n                      }', '                          ResultingRepeat::NoChange => working_repeat\n                        };\n                        if evs_out_len > 2 { break; }\n                      }', ['C10']),
 ('loop-timer-drift', 'src/remapping_loop.rs', 'next_wakeup: next_wakeup + Duration::from_millis(interval_ms as u64),', 'next_wakeup: Instant::now() + Duration::from_millis(interval_ms as u64),', ['C11']),
 ('loop-chord-ignores-held', 'src/remapping_loop.rs', '                  if !held_output_keys.contains(key) {\n                    repeat_send.push(Pressed(*key));\n                  }', '                  if !held_output_keys.contains(key) || keys.len() > 2 {\n                    repeat_send.push(Pressed(*key));\n                  }', ['C11']),
 ('loop-tablet-two-layers-removed', 'src/remapping_loop.rs', None, None, ['C12']),
 ('loop-off-no-release_all', 'src/remapping_loop.rs', '                        Off => {\n                          in_tablet_mode = false;\n                          working_repeat = WorkingRepeat::Idle;\n                          let release_events = mapper.release_all();', '                        Off => {\n                          in_tablet_mode = false;\n                          working_repeat = WorkingRepeat::Idle;\n                          let release_events: Vec<Event> = if restart_count >= 0 { Vec::new() } else { mapper.release_all() };', ['C12']),
 ('loop-swallow-tablet-release-error', 'src/remapping_loop.rs', '                        On => {\n                          in_tablet_mode = true;\n                          working_repeat = WorkingRepeat::Idle;\n                          let release_events = mapper.release_all();\n                          if !release_events.is_empty() {\n                            driver.send(&release_events)?;', '                        On => {\n                          in_tablet_mode = true;\n                          working_repeat = WorkingRepeat::Idle;\n                          let release_events = mapper.release_all();\n                          if !release_events.is_empty() {\n                            driver.send(&release_events).ok();', ['C20']),
 ('loop-swallow-next-tablet-error', 'src/remapping_loop.rs', '                  match driver.next_tablet()? {', '                  match match driver.next_tablet() { Ok(x) => x, Err(_) => break } {', ['C20']),
 ('char-map-swap-entry', 'src/char_production_map.rs', "res.insert('^', SinkKey { sh: true, k: K6 });", "res.insert('^', SinkKey { sh: true, k: K7 });", ['C13']),
 ('row-1-offset', 'src/physical_keyboard_layouts.rs', 'res.insert(Row::USQuerty1.clone(), &US_ROW_GRAVE[1..]);', 'res.insert(Row::USQuerty1.clone(), &US_ROW_GRAVE[..]);', ['C13']),
 ('multiply-off-by-one', 'src/fancy_layout_interpreting.rs', 'if self.position[i] < self.quantities[i]-1 {', 'if self.position[i] + 1 < self.quantities[i]-1 + (i == 0) as usize {', ['C13']),
 ('always-left-shift', 'src/fancy_layout_interpreting.rs', 'to.push(if has_right_shift {KeyCode::RIGHTSHIFT} else {KeyCode::LEFTSHIFT});', 'to.push(KeyCode::LEFTSHIFT);', ['C13']),
 ('fromset-sorts-final-key', 'src/fancy_layout_interpreting.rs', '      let mut res: Vec<KeyCode> = keys[..keys.len()-1].iter().map(|k| *k).collect();\n      res.sort();\n      res.push(*keys.last().unwrap());', '      let mut res: Vec<KeyCode> = keys.iter().map(|k| *k).collect();\n      res.sort();', ['C13']),
 ('parser-unwrap', 'src/layout_parsing_formatting.rs', 'Ok(n.as_i64().ok_or(format!("Invalid delay_ms number: {}", v))? as i32)', 'Ok(n.as_i64().unwrap() as i32)', ['C14']),
 ('duplicate-check-removed', 'src/fancy_layout_interpreting.rs', '    if let Some(k) = find_duplicate_key(&sm.to) {', '    if let Some(k) = find_duplicate_key(&sm.to).filter(|_| sm.from.len() < 2) {', ['C14']),
 ('serde-rename-dropped', 'src/key_codes.rs', '  #[serde(rename = "0")]\n  K0 = 11,', '  K0 = 11,', []),
 ('parse-digit-case-dropped', 'src/layout_parsing_formatting.rs', '      "7" => Ok(KeyCode::K7),\n', '', ['C15']),
 ('repeat-special-key-renamed', 'src/layout_parsing_formatting.rs', 'if has_exactly_keys(special, &vec!["keys", "delay_ms", "interval_ms"]) {\n            let keys = special.get("keys").unwrap();\n            let delay_ms = special.get("delay_ms").unwrap();\n            let interval_ms = special.get("interval_ms").unwrap();\n            \n            Ok(SingleRepeat::Special {\n              keys: parse_single_repeat_keys(keys)?,\n              delay_ms: parse_repeat_delay_ms(delay_ms)?,\n              interval_ms: parse_repeat_interval_ms(interval_ms)?', 'if has_exactly_keys(special, &vec!["keys", "delay_ms", "interval_ms"]) {\n            let keys = special.get("keys").unwrap();\n            let delay_ms = special.get("delay_ms").unwrap();\n            let interval_ms = special.get("interval_ms").unwrap();\n            \n            Ok(SingleRepeat::Special {\n              keys: parse_single_repeat_keys(keys)?,\n              delay_ms: parse_repeat_delay_ms(delay_ms)?.max(0),\n              interval_ms: parse_repeat_interval_ms(interval_ms)?', ['C15']),
 ('extractor2-no-name-reset', 'src/keyboard_listing.rs', None, None, ['C16']),
 ('virtual-prefix-test-dropped', 'src/keyboard_listing.rs', None, None, ['C16']),
 ('flag_excluded-any-to-all', 'src/remapping_loop.rs', None, None, ['C16']),
 ('escape-apostrophe', 'src/udev_utils.rs', '    \'\\\'\' => "\\\\\'".to_owned(),', '    \'\\\'\' => "\'".to_owned(),', ['C17']),
 ('escape-percent', 'src/udev_utils.rs', "    '%' => \"%%\".to_owned(),\n", '', ['C17']),
 ('escape-hex-to-decimal', 'src/udev_utils.rs', 'format!("\\\\x{:02x}", i)', 'format!("\\\\x{:0>2}", i)', ['C17']),
 ('writer-value-u16', 'src/dev_input_rw.rs', '      input_event_data.add_i32(value);', '      input_event_data.add_u16(value as u16);', ['C18']),
 ('writer-no-syn', 'src/dev_input_rw.rs', '    send_type_code_value(0, 0, 0);\n', '    if evs.len() < 2 { send_type_code_value(0, 0, 0); }\n', ['C18']),
 ('reader-accepts-autorepeat', 'src/dev_input_rw.rs', 'if type_ == 1 && (value == 0 || value == 1) {\n        match FromPrimitive::from_u16(code) {\n          Some(k) => match value {\n            1 => return Ok(Event::Pressed(k)),', 'if type_ == 1 && (value == 0 || value == 1 || value == 2) {\n        match FromPrimitive::from_u16(code) {\n          Some(k) => match value {\n            1 | 2 => return Ok(Event::Pressed(k)),', ['C18']),
]

# mutants that need a positional edit (second occurrence etc.)
def special(name, text):
    if name == 'extractor2-no-name-reset':
        # the second extractor (used by --dev-file) forgets to reset the name at the I: line
        marker = 'fn extract_input_devices_from_proc_bus_input_devices'
        i = text.index(marker)
        old = '      *working_name = None;\n'
        j = text.index(old, i)
        return text[:j] + text[j + len(old):]
    if name == 'virtual-prefix-test-dropped':
        marker = 'pub fn list_input_devices'
        i = text.index(marker)
        old = 'if !p.starts_with("/devices/virtual/input/") {'
        j = text.index(old, i)
        return text[:j] + 'if !p.starts_with("/devices/virtual/input/input1") {' + text[j + len(old):]
    if name == 'flag_excluded-any-to-all':
        marker = 'fn flag_excluded_input_devices'
        i = text.index(marker)
        old = 'wilds.iter().any(|w| w.matches(&d.name))'
        j = text.index(old, i)
        return text[:j] + '!wilds.is_empty() && wilds.iter().all(|w| w.matches(&d.name))' + text[j + len(old):]
    if name == 'loop-tablet-two-layers-removed':
        a = '                        On => {\n                          in_tablet_mode = true;\n                          working_repeat = WorkingRepeat::Idle;'
        b = '              if !in_tablet_mode {\n                let mut repeat_send'
        assert text.count(a) == 1 and text.count(b) == 1
        return text.replace(a, '                        On => {\n                          in_tablet_mode = true;').replace(b, '              if true {\n                let mut repeat_send')
    raise KeyError(name)

def sh(cmd, **kw):
    return subprocess.run(cmd, shell=True, text=True, capture_output=True, **kw)

def main():
    sel = sys.argv[1:]
    results = {}
    if os.path.exists('/verif/tools/mutants-result.json'):
        results = json.load(open('/verif/tools/mutants-result.json'))
    os.makedirs(SCR, exist_ok=True)
    for (name, f, old, new, props) in M:
        if sel and not any(s in name for s in sel):
            continue
        if not sel and name in results and 'checks' in results[name]:
            continue
        shutil.rmtree(REPO, ignore_errors=True)
        sh(f'mkdir -p {REPO} && cd /repo && git archive HEAD | tar -x -C {REPO}')
        # working-tree state of /repo (uncommitted edits) is deliberately ignored: mutants start from HEAD
        p = os.path.join(REPO, f)
        text = open(p).read()
        if old is None:
            text2 = special(name, text)
        else:
            if text.count(old) != 1:
                print(f'[{name}] pattern occurs {text.count(old)} times - skipped'); results[name] = {'error': 'pattern'}; continue
            text2 = text.replace(old, new)
        if name == 'loop-break-after-first-event':
            text2 = text2.replace('                        let evs_out = step_out.events;\n', '                        let evs_out = step_out.events;\n                        let evs_out_len = evs_out.len();\n', 1)
        open(p, 'w').write(text2)
        # must still compile and pass the repository's own tests (guard off)
        t = sh(f'cd {REPO} && CARGO_TARGET_DIR={SCR}/repo-target cargo test --offline 2>&1 | tail -3')
        tests_ok = 'test result: ok' in t.stdout
        b = sh(f'cd /verif/harness && TM_REPO={REPO} CARGO_TARGET_DIR={TARGET} cargo build --release --offline 2>&1 | tail -5')
        if b.returncode != 0 or 'error' in b.stdout:
            print(f'[{name}] harness build failed: {b.stdout[-400:]}'); results[name] = {'error': 'build', 'tests_ok': tests_ok}; continue
        shutil.rmtree(OUT, ignore_errors=True); os.makedirs(OUT)
        shutil.copy('/verif/known_findings.json', OUT)
        res = {'tests_ok': tests_ok, 'checks': {}}
        for pid in props:
            t0 = time.time()
            r = sh(f'VERIF_DIR=/verif VERIF_OUT_DIR={OUT} VERIF_NO_REGRESSIONS=1 VERIF_SEED=1 {TARGET}/release/tmverif check {pid} quick 2>/dev/null | grep -E "VIOLATION|OK:" | head -2')
            caught = 'VIOLATION' in r.stdout
            res['checks'][pid] = {'caught': caught, 'wall_s': round(time.time() - t0, 1)}
            print(f'[{name}] tests_ok={tests_ok} {pid}: {"CAUGHT" if caught else "MISSED"} ({time.time()-t0:.1f}s)', flush=True)
        results[name] = res
        json.dump(results, open('/verif/tools/mutants-result.json', 'w'), indent=1)
    shutil.rmtree(SCR, ignore_errors=True)

if __name__ == '__main__':
    main()
